//go:build verif

package storage

// C11 (storage part) — custodian history and node-state queue lookups depend
// only on records that are not later than the query, and the custodian cache
// never changes an answer.
//
// Strictness derived from the code: readCustodianAccount(ts) and
// readAllNodes(threshold) consult records with timestamp <= the query (a record
// AT the query time is visible). The relations below only ever append records
// with a timestamp strictly greater than the remembered query, and the
// reference model is only consulted when no record sits exactly at the query
// (the tie is counted as a class, not asserted).

import (
	"bytes"
	"encoding/hex"
	"fmt"
	"sort"
	"strings"
	"sync"
	"testing"

	"github.com/MixinNetwork/mixin/common"
	"github.com/MixinNetwork/mixin/config"
	"github.com/MixinNetwork/mixin/crypto"
	"github.com/dgraph-io/badger/v4"
	"github.com/dgraph-io/badger/v4/options"
	"pgregory.net/rapid"
	kit "verifkit"
)

const vpC11Epoch = uint64(1700000000) * 1000000000

func vpC11OpenDB() *badger.DB {
	opts := badger.DefaultOptions("").WithInMemory(true)
	opts = opts.WithCompression(options.None).WithBlockCacheSize(0).WithIndexCacheSize(0)
	opts = opts.WithMetricsEnabled(false).WithLoggingLevel(badger.ERROR)
	opts = opts.WithNumMemtables(2).WithMemTableSize(8 << 20).WithNumCompactors(2)
	db, err := badger.Open(opts)
	if err != nil {
		panic(err)
	}
	return db
}

func vpC11OpenStore() *BadgerStore {
	custom := &config.Custom{}
	custom.Node.CacheTTL = 7200
	// only the snapshot database is needed by the lookups under test
	return &BadgerStore{custom: custom, snapshotsDB: vpC11OpenDB(), mutex: new(sync.RWMutex)}
}

func vpC11CloseStore(s *BadgerStore) {
	_ = s.snapshotsDB.Close()
}

// vpC11ColdView shares the databases of s but has an empty custodian cache.
func vpC11ColdView(s *BadgerStore) *BadgerStore {
	return &BadgerStore{custom: s.custom, snapshotsDB: s.snapshotsDB, cacheDB: s.cacheDB, mutex: new(sync.RWMutex)}
}

func vpC11Key(tag string, i int) crypto.Key {
	h1 := crypto.Blake3Hash([]byte(fmt.Sprintf("vpC11-%s-%d-a", tag, i)))
	h2 := crypto.Blake3Hash([]byte(fmt.Sprintf("vpC11-%s-%d-b", tag, i)))
	return crypto.NewKeyFromSeed(append(h1[:], h2[:]...))
}

func vpC11Addr(tag string, i int) (common.Address, crypto.Key) {
	spend := vpC11Key(tag, i)
	var a common.Address
	a.PublicSpendKey = spend.Public()
	a.PrivateViewKey = a.PublicSpendKey.DeterministicHashDerive()
	a.PublicViewKey = a.PrivateViewKey.Public()
	return a, spend
}

type vpC11NodeExtra struct {
	valid   []byte // all three signatures valid
	invalid []byte // signatures zeroed: parses only in genesis mode
	sortKey crypto.Key
}

var (
	vpC11PoolOnce sync.Once
	vpC11Pool     []*vpC11NodeExtra
	vpC11Network  = crypto.Blake3Hash([]byte("vpC11-network"))
)

const vpC11PoolSize = 11

func vpC11NodePool() []*vpC11NodeExtra {
	vpC11PoolOnce.Do(func() {
		for i := 0; i < vpC11PoolSize; i++ {
			custodian, cSpend := vpC11Addr("custodian-node", i)
			payee, pSpend := vpC11Addr("payee", i)
			signer := vpC11Key("signer", i)
			extra := common.EncodeCustodianNode(&custodian, &payee, &signer, &pSpend, &cSpend, vpC11Network)
			bad := append([]byte{}, extra...)
			for j := 161; j < len(bad); j++ {
				bad[j] = 0
			}
			vpC11Pool = append(vpC11Pool, &vpC11NodeExtra{valid: extra, invalid: bad, sortKey: custodian.PublicSpendKey})
		}
		sort.Slice(vpC11Pool, func(i, j int) bool {
			return bytes.Compare(vpC11Pool[i].sortKey[:], vpC11Pool[j].sortKey[:]) < 0
		})
	})
	return vpC11Pool
}

type vpC11Update struct {
	ts        uint64
	tx        *common.VersionedTransaction
	hash      crypto.Hash
	custodian common.Address
	nodes     [][]byte
	badSigs   bool
}

// vpC11BuildUpdate makes a custodian-update transaction: custodian address,
// >= 7 node entries in canonical (sorted) order, trailing approval signature.
func vpC11BuildUpdate(rt *rapid.T, serial int, badSigs bool) *vpC11Update {
	pool := vpC11NodePool()
	u := &vpC11Update{badSigs: badSigs}
	u.custodian, _ = vpC11Addr("custodian", rapid.IntRange(0, 5).Draw(rt, "custodian"))
	skip := rapid.IntRange(0, vpC11PoolSize-7).Draw(rt, "skip")
	drop := make(map[int]bool)
	for len(drop) < skip {
		drop[rapid.IntRange(0, vpC11PoolSize-1).Draw(rt, "drop")] = true
	}
	extra := append([]byte{}, u.custodian.PublicSpendKey[:]...)
	extra = append(extra, u.custodian.PublicViewKey[:]...)
	for i, ne := range pool {
		if drop[i] {
			continue
		}
		e := ne.valid
		if badSigs {
			e = ne.invalid
		}
		u.nodes = append(u.nodes, e)
		extra = append(extra, e...)
	}
	sig := crypto.Blake3Hash([]byte(fmt.Sprintf("vpC11-approval-%d", serial)))
	extra = append(extra, sig[:]...)
	extra = append(extra, sig[:]...)

	tx := common.NewTransactionV5(common.XINAssetId)
	tx.AddInput(crypto.Blake3Hash([]byte(fmt.Sprintf("vpC11-input-%d", serial))), 0)
	tx.AddOutputWithType(common.OutputTypeCustodianUpdateNodes, nil, common.Script{}, common.NewInteger(uint64(100*len(u.nodes))), nil)
	tx.Extra = extra
	u.tx = tx.AsVersioned()
	u.hash = u.tx.PayloadHash()
	return u
}

func vpC11WriteUpdate(s *BadgerStore, u *vpC11Update, ts uint64, genesis bool) error {
	txn := s.snapshotsDB.NewTransaction(true)
	defer txn.Discard()
	if err := writeTransaction(txn, u.tx); err != nil {
		return err
	}
	for _, utxo := range u.tx.UnspentOutputs() {
		if err := writeUTXO(txn, utxo, u.tx, ts, genesis); err != nil {
			return err
		}
	}
	return txn.Commit()
}

func vpC11RenderCustodian(r *common.CustodianUpdateRequest, err error) string {
	if err != nil {
		return "error: " + err.Error()
	}
	if r == nil {
		return "nil"
	}
	var sb strings.Builder
	fmt.Fprintf(&sb, "tx=%s ts=%d ", r.Transaction, r.Timestamp)
	if r.Custodian != nil {
		fmt.Fprintf(&sb, "custodian=%s/%s ", r.Custodian.PublicSpendKey, r.Custodian.PublicViewKey)
	} else {
		sb.WriteString("custodian=nil ")
	}
	if r.Signature != nil {
		fmt.Fprintf(&sb, "sig=%s ", r.Signature)
	} else {
		sb.WriteString("sig=nil ")
	}
	fmt.Fprintf(&sb, "nodes=%d[", len(r.Nodes))
	for _, n := range r.Nodes {
		if n == nil {
			sb.WriteString("nil;")
			continue
		}
		fmt.Fprintf(&sb, "%s/%s/%s/%s/%s;", n.Custodian.PublicSpendKey, n.Custodian.PublicViewKey, n.Payee.PublicSpendKey, n.Payee.PublicViewKey,
			hex.EncodeToString(n.Extra))
	}
	sb.WriteString("]")
	return sb.String()
}

func vpC11Uncached(s *BadgerStore, q uint64) string {
	txn := s.snapshotsDB.NewTransaction(false)
	defer txn.Discard()
	r, err := readCustodianAccount(txn, q, nil)
	return vpC11RenderCustodian(r, err)
}

// vpC11Scribble mutates everything reachable from a returned request.
func vpC11Scribble(r *common.CustodianUpdateRequest) {
	if r == nil {
		return
	}
	r.Timestamp += 7
	r.Transaction[0] ^= 0xff
	if r.Custodian != nil {
		r.Custodian.PublicSpendKey[0] ^= 0xff
		r.Custodian.PublicViewKey[31] ^= 0xff
	}
	if r.Signature != nil {
		r.Signature[0] ^= 0xff
	}
	for _, n := range r.Nodes {
		n.Custodian.PublicSpendKey[1] ^= 0xff
		n.Payee.PublicViewKey[2] ^= 0xff
		for i := range n.Extra {
			n.Extra[i] ^= 0x5a
		}
	}
	if len(r.Nodes) > 1 {
		r.Nodes[0], r.Nodes[1] = r.Nodes[1], r.Nodes[0]
		r.Nodes[len(r.Nodes)-1] = nil
	}
}

func TestVP_C11_store_custodian(t *testing.T) {
	c := kit.New(t, "C11", "rapid: 1..6 custodian updates (7..11 node entries from a fixed signed pool, six custodian addresses, first entry with or without valid node signatures) written at increasing times through writeTransaction+writeUTXO, 2..4 queries after every append at {t-1,t,t+1} of update times, before the first and uniform; checks: cached ReadCustodian == uncached readCustodianAccount (errors included) == (one time in three) a cold-cache store view, answers remembered for q stay the same after updates with ts>q are appended, mutating a returned object does not change later answers, reference = last update with ts<q when no update sits at q; plus a synthetic state where the first (genesis-parsed) transaction is referenced again at a later time; non-trivial = query with updates on both sides; distinct by rendered answer+q")
	c.Require("updates-both-sides", "tie-at-q", "cache-hit", "before-first", "remembered-rechecked", "scribbled", "genesis-unsigned-first", "same-tx-twice", "error-answer", "tie-append")
	kit.SetChecks(kit.N(150, 3600))
	rapid.Check(t, func(rt *rapid.T) {
		s := vpC11OpenStore()
		defer vpC11CloseStore(s)
		var ups []*vpC11Update
		remembered := make(map[uint64]string)
		seen := make(map[crypto.Hash]bool) // transactions already parsed once through the cache
		last := vpC11Epoch
		nUpdates := rapid.IntRange(1, 6).Draw(rt, "updates")
		firstUnsigned := rapid.IntRange(0, 1).Draw(rt, "first_unsigned") == 0
		sameTwiceAt := -1
		if firstUnsigned && nUpdates >= 2 && rapid.IntRange(0, 2).Draw(rt, "same_twice") == 0 {
			// last position: once the state holds an unparsable entry no further update can be written
			sameTwiceAt = nUpdates - 1
		}
		serial := 0
		for k := 0; k < nUpdates; k++ {
			step := rapid.SampledFrom([]uint64{1, 2, 30000000000, 43200000000000, 86400000000000 * 3}).Draw(rt, "step")
			ts := last + step
			var u *vpC11Update
			if k == sameTwiceAt {
				// synthetic: the same transaction referenced at a second time; in non-genesis
				// position its unsigned node entries do not parse
				u = &vpC11Update{ts: ts, tx: ups[0].tx, hash: ups[0].hash, custodian: ups[0].custodian, nodes: ups[0].nodes, badSigs: true}
				txn := s.snapshotsDB.NewTransaction(true)
				if err := txn.Set(graphCustodianUpdateKey(ts), u.hash[:]); err != nil {
					rt.Fatalf("set: %v", err)
				}
				if err := txn.Commit(); err != nil {
					rt.Fatalf("commit: %v", err)
				}
				c.Class("same-tx-twice")
			} else {
				serial++
				u = vpC11BuildUpdate(rt, serial, k == 0 && firstUnsigned)
				u.ts = ts
				if err := vpC11WriteUpdate(s, u, ts, k == 0); err != nil {
					rt.Fatalf("write custodian update %d at %d: %v", k, ts, err)
				}
				if k == 0 && firstUnsigned {
					c.Class("genesis-unsigned-first")
				}
			}
			ups = append(ups, u)
			last = ts

			// a second update carrying the same custodian account arrives for the
			// very same snapshot time (another chain's snapshot with an equal
			// timestamp): every answer given so far and the answers at ts-1, ts,
			// ts+1 must stay what they were before it arrived
			if k != sameTwiceAt && rapid.IntRange(0, 3).Draw(rt, "tie_append") == 0 {
				before := map[uint64]string{}
				for q := range remembered {
					if q < ts { // answers for q >= ts legitimately changed when u itself arrived
						before[q] = remembered[q]
					}
				}
				for _, q := range []uint64{ts - 1, ts, ts + 1} {
					r, err := s.ReadCustodian(q)
					before[q] = vpC11RenderCustodian(r, err)
				}
				serial++
				var tie *vpC11Update
				for try := 0; try < 20 && (tie == nil || tie.custodian.String() != u.custodian.String() || tie.hash == u.hash); try++ {
					tie = vpC11BuildUpdate(rt, serial+1000*try, false)
				}
				if tie.custodian.String() == u.custodian.String() && tie.hash != u.hash {
					if err := vpC11WriteUpdate(s, tie, ts, false); err != nil {
						rt.Fatalf("write tie update at %d: %v", ts, err)
					}
					for q, want := range before {
						r, err := s.ReadCustodian(q)
						if got := vpC11RenderCustodian(r, err); got != want {
							rt.Fatalf("ReadCustodian(%d) changed after a second update with the same custodian arrived for the occupied time %d:\n before=%.150s\n after =%.150s", q, ts, want, got)
						}
						if un := vpC11Uncached(s, q); un != want {
							rt.Fatalf("uncached custodian lookup at %d changed after a tie update at %d:\n before=%.150s\n after =%.150s", q, ts, want, un)
						}
					}
					c.Class("tie-append")
				}
			}

			// relation: answers for q < ts are unaffected by the append
			for q, want := range remembered {
				if q >= ts {
					delete(remembered, q)
					continue
				}
				r, err := s.ReadCustodian(q)
				if got := vpC11RenderCustodian(r, err); got != want {
					rt.Fatalf("ReadCustodian(%d) changed after appending an update at %d (> q):\n before=%s\n after =%s", q, ts, want, got)
				}
				c.Class("remembered-rechecked")
			}

			nq := rapid.IntRange(2, 4).Draw(rt, "nq")
			for i := 0; i < nq; i++ {
				var q uint64
				switch rapid.IntRange(0, 4).Draw(rt, "qkind") {
				case 0, 1:
					q = ups[rapid.IntRange(0, len(ups)-1).Draw(rt, "qi")].ts - 1 + uint64(rapid.IntRange(0, 2).Draw(rt, "qd"))
				case 2:
					q = vpC11Epoch - uint64(rapid.IntRange(0, 5).Draw(rt, "qbefore"))
				case 3:
					q = vpC11Epoch + uint64(rapid.Int64Range(0, int64(last-vpC11Epoch)+5).Draw(rt, "quni"))
				default:
					q = last + uint64(rapid.IntRange(0, 100).Draw(rt, "qafter"))
				}
				classes := []string{}
				r, err := s.ReadCustodian(q)
				cached := vpC11RenderCustodian(r, err)
				uncached := vpC11Uncached(s, q)
				if cached != uncached {
					rt.Fatalf("ReadCustodian(%d) served with the cache differs from the uncached lookup:\n cached  =%s\n uncached=%s", q, cached, uncached)
				}
				if rapid.IntRange(0, 2).Draw(rt, "cold") == 0 {
					cr, cerr := vpC11ColdView(s).ReadCustodian(q)
					if cold := vpC11RenderCustodian(cr, cerr); cold != cached {
						rt.Fatalf("ReadCustodian(%d) warm cache vs cold cache:\n warm=%s\n cold=%s", q, cached, cold)
					}
				}
				if err != nil {
					classes = append(classes, "error-answer")
				}
				// reference model, only off the ties
				var prev *vpC11Update
				tie, after := false, 0
				for _, u := range ups {
					if u.ts == q {
						tie = true
					}
					if u.ts < q {
						prev = u
					}
					if u.ts > q {
						after++
					}
				}
				errorBefore := false
				for i, u := range ups {
					if i > 0 && u.badSigs && u.ts <= q {
						errorBefore = true
					}
				}
				switch {
				case tie:
					classes = append(classes, "tie-at-q")
				case errorBefore:
					if err == nil {
						rt.Fatalf("ReadCustodian(%d) parsed an unsigned node entry in non-genesis position", q)
					}
				case prev == nil:
					classes = append(classes, "before-first")
					if r != nil || err != nil {
						rt.Fatalf("ReadCustodian(%d) before the first update: %s", q, cached)
					}
				default:
					if err != nil || r == nil {
						rt.Fatalf("ReadCustodian(%d): %s, want update at %d", q, cached, prev.ts)
					}
					if r.Timestamp != prev.ts || r.Transaction != prev.hash || r.Custodian.String() != prev.custodian.String() || len(r.Nodes) != len(prev.nodes) {
						rt.Fatalf("ReadCustodian(%d)=%s, want update at %d tx %s", q, cached, prev.ts, prev.hash)
					}
					for i, n := range r.Nodes {
						if !bytes.Equal(n.Extra, prev.nodes[i]) {
							rt.Fatalf("ReadCustodian(%d) node %d extra differs from the written one", q, i)
						}
					}
				}
				if r != nil {
					if seen[r.Transaction] {
						classes = append(classes, "cache-hit")
					}
					orig := r.Transaction
					// clone check: scribble over the returned object, read again
					vpC11Scribble(r)
					r2, err2 := s.ReadCustodian(q)
					if again := vpC11RenderCustodian(r2, err2); again != cached {
						rt.Fatalf("ReadCustodian(%d) changed after the caller mutated the previously returned object:\n before=%s\n after =%s", q, cached, again)
					}
					classes = append(classes, "scribbled")
					seen[orig] = true
				}
				if prev != nil && after > 0 {
					classes = append(classes, "updates-both-sides")
				}
				remembered[q] = cached
				c.Case(fmt.Sprintf("%d|%s", q, cached[:min(len(cached), 90)]), prev != nil && after > 0, classes...)
			}
			// ListCustodianUpdates uses the same cache: its entries equal the per-time lookups
			if list, err := s.ListCustodianUpdates(); err == nil {
				for i, lu := range list {
					if lu.Timestamp != ups[i].ts || lu.Transaction != ups[i].hash {
						rt.Fatalf("ListCustodianUpdates[%d] = %d/%s want %d/%s", i, lu.Timestamp, lu.Transaction, ups[i].ts, ups[i].hash)
					}
				}
			}
		}
	})
}

// ---------------------------------------------------------------------------
// node state queue

type vpC11NodeRec struct {
	signer crypto.Key
	payee  crypto.Key
	tx     crypto.Hash
	ts     uint64
	state  string
}

func vpC11RenderNodes(nodes []*common.Node, sorted bool) string {
	parts := make([]string, len(nodes))
	for i, n := range nodes {
		parts[i] = fmt.Sprintf("%020d/%s/%s/%s/%s", n.Timestamp, n.Signer.PublicSpendKey, n.Payee.PublicSpendKey, n.Transaction.String()[:10], n.State)
	}
	if sorted {
		sort.Strings(parts)
	}
	return strings.Join(parts, ";")
}

func TestVP_C11_store_nodes(t *testing.T) {
	c := kit.New(t, "C11", "rapid: 7..10 genesis accepts at one timestamp, then 0..10 pledge/accept/cancel/remove records written with the production writers at increasing times (steps 1ns, 30s, 12h, 3d); after every append 3..6 queries at {t-1,t,t+1}, before the first record and uniform; checks: ReadAllNodes(q,true|false) remembered for q stay the same after records with ts>q are appended, ReadAllNodes(q,true) is a prefix of ReadAllNodes(q',true) for q<q', reference = written records with ts<=q in key order / latest per signer when no record sits at q; non-trivial = records on both sides of q; distinct by (q, number of records)")
	c.Require("records-both-sides", "tie-at-q", "remembered-rechecked", "removed-visible", "pledging-visible")
	kit.SetChecks(kit.N(150, 3600))
	rapid.Check(t, func(rt *rapid.T) {
		s := vpC11OpenStore()
		defer vpC11CloseStore(s)
		var recs []*vpC11NodeRec
		write := func(r *vpC11NodeRec, genesis bool) {
			txn := s.snapshotsDB.NewTransaction(true)
			defer txn.Discard()
			var err error
			switch r.state {
			case common.NodeStateAccepted:
				err = writeNodeAccept(txn, r.signer, r.payee, r.tx, r.ts, genesis)
			case common.NodeStatePledging:
				err = writeNodePledge(txn, r.signer, r.payee, r.tx, r.ts)
			case common.NodeStateCancelled:
				err = writeNodeCancel(txn, r.signer, r.payee, r.tx, r.ts)
			case common.NodeStateRemoved:
				err = writeNodeRemove(txn, r.signer, r.payee, r.tx, r.ts)
			}
			if err != nil {
				rt.Fatalf("write %s at %d: %v", r.state, r.ts, err)
			}
			if err := txn.Commit(); err != nil {
				rt.Fatalf("commit: %v", err)
			}
			recs = append(recs, r)
		}
		salt := rapid.IntRange(0, 1<<20).Draw(rt, "salt")
		serial := 0
		identity := func() (crypto.Key, crypto.Key) {
			serial++
			return vpC11Key(fmt.Sprintf("n%d-signer", salt), serial).Public(), vpC11Key(fmt.Sprintf("n%d-payee", salt), serial).Public()
		}
		txh := func() crypto.Hash { return crypto.Blake3Hash([]byte(fmt.Sprintf("vpC11-node-tx-%d-%d", salt, len(recs)))) }

		remembered := make(map[uint64][2]string)
		queries := func() {
			last := recs[len(recs)-1].ts
			for q, want := range remembered {
				if q >= last {
					delete(remembered, q)
					continue
				}
				if got := vpC11RenderNodes(s.ReadAllNodes(q, true), false); got != want[0] {
					rt.Fatalf("ReadAllNodes(%d,true) changed after appending a record at %d:\n before=%s\n after =%s", q, last, want[0], got)
				}
				if got := vpC11RenderNodes(s.ReadAllNodes(q, false), true); got != want[1] {
					rt.Fatalf("ReadAllNodes(%d,false) changed after appending a record at %d:\n before=%s\n after =%s", q, last, want[1], got)
				}
				c.Class("remembered-rechecked")
			}
			nq := rapid.IntRange(3, 6).Draw(rt, "nq")
			var prevQ uint64
			var prevWith string
			for i := 0; i < nq; i++ {
				var q uint64
				switch rapid.IntRange(0, 3).Draw(rt, "qkind") {
				case 0, 1:
					q = recs[rapid.IntRange(0, len(recs)-1).Draw(rt, "qi")].ts - 1 + uint64(rapid.IntRange(0, 2).Draw(rt, "qd"))
				case 2:
					q = vpC11Epoch + uint64(rapid.Int64Range(0, int64(last-vpC11Epoch)+5).Draw(rt, "quni"))
				default:
					q = last + uint64(rapid.IntRange(0, 100).Draw(rt, "qafter"))
				}
				with := vpC11RenderNodes(s.ReadAllNodes(q, true), false)
				without := vpC11RenderNodes(s.ReadAllNodes(q, false), true)
				classes := []string{}
				// prefix relation between two queries
				if i > 0 {
					a, b, qa, qb := prevWith, with, prevQ, q
					if qa > qb {
						a, b, qa, qb = b, a, qb, qa
					}
					if !strings.HasPrefix(b, a) {
						rt.Fatalf("ReadAllNodes(%d,true) is not a prefix of ReadAllNodes(%d,true)\n a=%s\n b=%s", qa, qb, a, b)
					}
				}
				prevQ, prevWith = q, with
				tie, before, after := false, 0, 0
				for _, r := range recs {
					switch {
					case r.ts == q:
						tie = true
					case r.ts < q:
						before++
					default:
						after++
					}
				}
				if tie {
					classes = append(classes, "tie-at-q")
				} else {
					// reference: records with ts < q, key order (ts, signer bytes); latest per signer
					var vis []*vpC11NodeRec
					for _, r := range recs {
						if r.ts < q {
							vis = append(vis, r)
						}
					}
					sort.SliceStable(vis, func(i, j int) bool {
						if vis[i].ts != vis[j].ts {
							return vis[i].ts < vis[j].ts
						}
						return bytes.Compare(vis[i].signer[:], vis[j].signer[:]) < 0
					})
					var wantWith []string
					latest := make(map[crypto.Key]string)
					for _, r := range vis {
						line := fmt.Sprintf("%020d/%s/%s/%s/%s", r.ts, r.signer, r.payee, r.tx.String()[:10], r.state)
						wantWith = append(wantWith, line)
						latest[r.signer] = line
					}
					if w := strings.Join(wantWith, ";"); w != with {
						rt.Fatalf("ReadAllNodes(%d,true)\n got=%s\nwant=%s", q, with, w)
					}
					var wantWithout []string
					for _, l := range latest {
						wantWithout = append(wantWithout, l)
					}
					sort.Strings(wantWithout)
					if w := strings.Join(wantWithout, ";"); w != without {
						rt.Fatalf("ReadAllNodes(%d,false)\n got=%s\nwant=%s", q, without, w)
					}
				}
				if before > 0 && after > 0 {
					classes = append(classes, "records-both-sides")
				}
				if strings.Contains(with, common.NodeStateRemoved) {
					classes = append(classes, "removed-visible")
				}
				if strings.Contains(without, common.NodeStatePledging) {
					classes = append(classes, "pledging-visible")
				}
				remembered[q] = [2]string{with, without}
				c.Case(fmt.Sprintf("%d|%d|%d", salt, q, len(recs)), before > 0 && after > 0, classes...)
			}
		}

		g := rapid.IntRange(7, 10).Draw(rt, "genesis")
		var accepted []*vpC11NodeRec
		for i := 0; i < g; i++ {
			sg, py := identity()
			r := &vpC11NodeRec{signer: sg, payee: py, tx: txh(), ts: vpC11Epoch, state: common.NodeStateAccepted}
			write(r, true)
			accepted = append(accepted, r)
		}
		queries()
		var pledging *vpC11NodeRec
		cur := vpC11Epoch
		nops := rapid.IntRange(0, 10).Draw(rt, "nops")
		for k := 0; k < nops; k++ {
			cur += rapid.SampledFrom([]uint64{1, 2, 30000000000, 43200000000000, 3 * 86400000000000}).Draw(rt, "step")
			switch {
			case pledging != nil:
				st := rapid.SampledFrom([]string{common.NodeStateAccepted, common.NodeStateAccepted, common.NodeStateCancelled}).Draw(rt, "follow")
				r := &vpC11NodeRec{signer: pledging.signer, payee: pledging.payee, tx: txh(), ts: cur, state: st}
				write(r, false)
				if st == common.NodeStateAccepted {
					accepted = append(accepted, r)
				}
				pledging = nil
			case len(accepted) > 3 && rapid.IntRange(0, 1).Draw(rt, "kind") == 0:
				j := rapid.IntRange(0, len(accepted)-1).Draw(rt, "rm")
				a := accepted[j]
				write(&vpC11NodeRec{signer: a.signer, payee: a.payee, tx: txh(), ts: cur, state: common.NodeStateRemoved}, false)
				accepted = append(accepted[:j:j], accepted[j+1:]...)
			default:
				sg, py := identity()
				pledging = &vpC11NodeRec{signer: sg, payee: py, tx: txh(), ts: cur, state: common.NodeStatePledging}
				write(pledging, false)
			}
			queries()
		}
	})
}
