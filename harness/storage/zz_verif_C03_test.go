//go:build verif

package storage

import (
	"slices"
	"fmt"
	"sort"
	"sync"
	"testing"

	"github.com/MixinNetwork/mixin/common"
	"github.com/MixinNetwork/mixin/crypto"
	"github.com/dgraph-io/badger/v4"
	"pgregory.net/rapid"
	kit "verifkit"
)

type vpC03Cand struct {
	ver   *common.VersionedTransaction
	hash  crypto.Hash
	slots []string // slot names
	kind  string
	wide  bool // names 65.. inputs
}

// vpC03Setup builds a ledger with free outputs and 3..8 candidate transactions
// with overlapping slot sets: transfers sharing outputs, deposits sharing or
// nearly sharing a deposit id, mints sharing a batch.
func vpC03Setup(t *rapid.T, tag string) (*vpLedger, []*vpC03Cand) {
	l := vpLNewLedger(7, tag, 4)
	nfund := rapid.IntRange(3, 6).Draw(t, "nfund")
	for i := 0; i < nfund; i++ {
		l.Seq++
		ver := l.BuildDeposit(&l.Assets[1], common.NewInteger(2), vpLOut{Owners: []int{i % 4}, Threshold: 1}, fmt.Sprintf("0xf%d", l.Seq), 0, nil)
		if err := l.Admit(ver, l.Tick(10), "deposit"); err != nil {
			t.Fatalf("fund: %v", err)
		}
		l.FinalizeOne(t, []crypto.Hash{ver.PayloadHash()})
	}
	btc := l.Assets[1].Id
	// split some of the funded outputs so that free slots also sit at output
	// indexes 1 and 2 (a lock rule that only looks at index 0 must not go unnoticed)
	for _, u := range l.Unspent(&btc, true, true) {
		if rapid.IntRange(0, 2).Draw(t, "split") == 0 {
			continue
		}
		half := u.Amount.Div(2)
		outs := []vpLOut{{Type: common.OutputTypeScript, Owners: []int{0}, Threshold: 1, Amount: half}, {Type: common.OutputTypeScript, Owners: []int{0}, Threshold: 1, Amount: u.Amount.Sub(half)}}
		tx := l.BuildSpend(btc, []*vpLUTXO{u}, outs, nil, nil)
		ver := l.SignMaps(tx, []*vpLUTXO{u}, [][]int{{0}})
		if err := l.Admit(ver, l.Tick(10), "transfer"); err != nil {
			t.Fatalf("split: %v", err)
		}
		l.FinalizeOne(t, []crypto.Hash{ver.PayloadHash()})
	}
	// in a third of the cases one output is split into 66..140 unit outputs, so
	// that one lock call can name far more inputs than the others (up to 256
	// are allowed) and be refused at a late one
	var wide []*vpLUTXO
	if free0 := l.Unspent(&btc, true, true); len(free0) > 0 && rapid.IntRange(0, 2).Draw(t, "wide") == 0 {
		u := free0[rapid.IntRange(0, len(free0)-1).Draw(t, "wide_source")]
		w := rapid.IntRange(100, 150).Draw(t, "wide_outputs")
		unit := common.NewIntegerFromString("0.00000001")
		var outs []vpLOut
		for i := 0; i < w-1; i++ {
			outs = append(outs, vpLOut{Type: common.OutputTypeScript, Owners: []int{0}, Threshold: 1, Amount: unit})
		}
		outs = append(outs, vpLOut{Type: common.OutputTypeScript, Owners: []int{0}, Threshold: 1, Amount: u.Amount.Sub(unit.Mul(w - 1))})
		tx := l.BuildSpend(btc, []*vpLUTXO{u}, outs, nil, nil)
		ver := l.SignMaps(tx, []*vpLUTXO{u}, [][]int{{0}})
		if err := l.Admit(ver, l.Tick(10), "transfer"); err != nil {
			t.Fatalf("wide split: %v", err)
		}
		l.FinalizeOne(t, []crypto.Hash{ver.PayloadHash()})
		for _, x := range l.Unspent(&btc, true, true) {
			if x.Hash == ver.PayloadHash() {
				wide = append(wide, x)
			}
		}
	}
	free := l.Unspent(&btc, true, true)
	var cands []*vpC03Cand
	n := rapid.IntRange(3, 8).Draw(t, "ncand")
	// the external deposit identifier is (chain, transaction id, output index);
	// the asset key a deposit names for it is not part of the identifier, so two
	// deposits that describe the same external output with different asset keys
	// contend for one slot
	depIds := []struct {
		chain crypto.Hash
		tx    string
		idx   uint64
		key   string
	}{{l.Assets[1].Chain, "0xabc", 0, ""}, {l.Assets[1].Chain, "0xabc", 1, ""}, {l.Assets[1].Chain, "0xabc:1", 0, ""}, {l.Assets[1].Chain, "0xab", 0, ""}, {common.EthereumAssetId, "0xabc", 0, ""}, {l.Assets[1].Chain, "0xabc:0", 1, ""},
		{l.Assets[1].Chain, "0xabc", 0, "0xdac17f958d2ee523a2206206994597c13d831ec7"}, {l.Assets[1].Chain, "0xabc", 1, "another-asset-key"}}
	for i := 0; i < n; i++ {
		l.Seq++
		c := &vpC03Cand{}
		switch rapid.IntRange(0, 5).Draw(t, "cand_kind") {
		case 0: // deposit candidate
			d := depIds[rapid.IntRange(0, len(depIds)-1).Draw(t, "dep_id")]
			a := vpLAsset{Id: l.Assets[1].Id, Chain: d.chain, Key: l.Assets[1].Key}
			if d.key != "" {
				a.Key = d.key
			}
			c.ver = l.BuildDeposit(&a, common.NewInteger(1), vpLOut{Owners: []int{0}, Threshold: 1}, d.tx, d.idx, nil)
			c.slots = []string{fmt.Sprintf("D|%s|%s|%d", d.chain, d.tx, d.idx)}
			c.kind = "deposit"
		case 1: // mint candidate
			batch := uint64(rapid.IntRange(1, 2).Draw(t, "mint_batch"))
			tx := common.NewTransactionV5(common.XINAssetId)
			tx.AddUniversalMintInput(batch, common.NewInteger(uint64(rapid.IntRange(1, 2).Draw(t, "mint_amt"))))
			l.addOutputs(tx, []vpLOut{{Type: common.OutputTypeScript, Owners: []int{0}, Threshold: 1, Amount: tx.Inputs[0].Mint.Amount}})
			sg := &common.SignedTransaction{Transaction: *tx}
			_ = sg.SignRaw(l.Signers[0].PrivateSpendKey)
			c.ver = sg.AsVersioned()
			c.slots = []string{fmt.Sprintf("M|%d", batch)}
			c.kind = "mint"
		default: // transfer over 1..3 of the free outputs
			k := rapid.IntRange(1, min(3, len(free))).Draw(t, "tr_nin")
			pick := rapid.Permutation(vpLRange(len(free))).Draw(t, "tr_pick")[:k]
			var ins []*vpLUTXO
			var signers [][]int
			sum := common.NewInteger(0)
			for j, pi := range pick {
				u := free[pi]
				ins = append(ins, u)
				signers = append(signers, []int{0})
				if j == 0 {
					sum = u.Amount
				} else {
					sum = sum.Add(u.Amount)
				}
				c.slots = append(c.slots, "U|"+u.id())
			}
			tx := l.BuildSpend(btc, ins, []vpLOut{{Type: common.OutputTypeScript, Owners: []int{1}, Threshold: 1, Amount: sum}}, nil, nil)
			c.ver = l.SignMaps(tx, ins, signers)
			c.kind = "transfer"
		}
		c.hash = c.ver.PayloadHash()
		cands = append(cands, c)
	}
	if len(wide) >= 100 {
		// the first candidate becomes a transfer over 90.. of the unit outputs; in
		// half of the cases the outputs the other candidates also name come last
		// in its input list, so that a refusal happens after more than 64 inputs
		used := map[string]bool{}
		for _, o := range cands[1:] {
			for _, s := range o.slots {
				used[s] = true
			}
		}
		k := rapid.IntRange(90, len(wide)).Draw(t, "wide_nin")
		pick := rapid.Permutation(vpLRange(len(wide))).Draw(t, "wide_pick")[:k]
		if rapid.Bool().Draw(t, "wide_contended_last") {
			sort.SliceStable(pick, func(a, b int) bool {
				return !used["U|"+wide[pick[a]].id()] && used["U|"+wide[pick[b]].id()]
			})
		}
		c := &vpC03Cand{kind: "transfer", wide: true}
		var ins []*vpLUTXO
		var signers [][]int
		sum := common.NewInteger(0)
		for j, pi := range pick {
			u := wide[pi]
			ins = append(ins, u)
			signers = append(signers, []int{0})
			if j == 0 {
				sum = u.Amount
			} else {
				sum = sum.Add(u.Amount)
			}
			c.slots = append(c.slots, "U|"+u.id())
		}
		tx := l.BuildSpend(btc, ins, []vpLOut{{Type: common.OutputTypeScript, Owners: []int{1}, Threshold: 1, Amount: sum}}, nil, nil)
		c.ver = l.SignMaps(tx, ins, signers)
		c.hash = c.ver.PayloadHash()
		cands[0] = c
	}
	return l, cands
}

// vpC03Holder reads the current holder of a slot through the store.
func vpC03Holder(l *vpLedger, c *vpC03Cand, slot string) (crypto.Hash, error) {
	switch slot[0] {
	case 'U':
		for _, in := range c.ver.Inputs {
			if "U|"+fmt.Sprintf("%s:%d", in.Hash, in.Index) == slot {
				u, err := l.Store.ReadUTXOLock(in.Hash, in.Index)
				if err != nil || u == nil {
					return crypto.Hash{}, fmt.Errorf("output vanished: %v", err)
				}
				return u.LockHash, nil
			}
		}
	case 'D':
		return l.Store.ReadDepositLock(c.ver.Inputs[0].Deposit)
	case 'M':
		var h crypto.Hash
		err := l.Store.snapshotsDB.View(func(txn *badger.Txn) error {
			d, err := readMintInput(txn, c.ver.Inputs[0].Mint)
			if err == badger.ErrKeyNotFound {
				return nil
			}
			if err != nil {
				return err
			}
			h = d.Transaction
			return nil
		})
		return h, err
	}
	return crypto.Hash{}, fmt.Errorf("bad slot %s", slot)
}

type vpC03Model struct {
	holder map[string]crypto.Hash
	body   map[crypto.Hash]bool
	final  map[crypto.Hash]bool
}

// apply mirrors one lock call and returns whether it must succeed.
func (m *vpC03Model) lock(c *vpC03Cand, fork bool, byHash map[crypto.Hash]*vpC03Cand) bool {
	for _, s := range c.slots {
		h := m.holder[s]
		if h.HasValue() && h != c.hash {
			if !fork || m.final[h] {
				return false
			}
		}
	}
	for _, s := range c.slots {
		h := m.holder[s]
		if h.HasValue() && h != c.hash {
			delete(m.body, h)
		}
		m.holder[s] = c.hash
	}
	return true
}

func (m *vpC03Model) holdsAll(c *vpC03Cand) bool {
	for _, s := range c.slots {
		if m.holder[s] != c.hash {
			return false
		}
	}
	return true
}

func TestVP_C03_owned_schedule(t *testing.T) {
	c := kit.New(t, "C03", "rapid: 3..8 candidate transactions with overlapping slot sets (shared outputs; in a third of the cases one transfer over 90..150 unit outputs that the other transfers contend for; deposit ids differing only in chain / tx id / index incl. ids with ':'; mint batches) and a drawn global order of 10..60 lock (ordinary / finalization-path), persist, finalize and read operations (each lock call is one mutex-guarded store update, so call-granularity orders are the interleavings); oracle: sequential reference model of holder/body/finalized per slot - ordinary lock of a foreign-held slot fails and changes nothing, relock is idempotent, takeover succeeds iff no displaced holder is finalized and deletes the displaced body in the same observation, reads agree with the model after every step; non-trivial = history with a contended slot and a takeover; distinct by operation list")
	c.Require("contended", "takeover", "takeover-refused", "relock", "atomic-fail", "deposit-cand", "mint-cand", "near-deposit-ids", "source-refinalized", "wide-lock-refused-after-64-inputs")
	kit.SetChecks(kit.N(150, 6000))
	rapid.Check(t, func(t *rapid.T) {
		l, cands := vpC03Setup(t, "c03")
		defer l.Close()
		byHash := map[crypto.Hash]*vpC03Cand{}
		for _, cd := range cands {
			byHash[cd.hash] = cd
		}
		m := &vpC03Model{holder: map[string]crypto.Hash{}, body: map[crypto.Hash]bool{}, final: map[crypto.Hash]bool{}}
		nops := rapid.IntRange(10, 60).Draw(t, "nops")
		var trace []string
		classes := map[string]bool{}
		depSlots := map[string]bool{}
		for _, cd := range cands {
			if cd.kind == "deposit" {
				classes["deposit-cand"] = true
				depSlots[cd.slots[0]] = true
			}
			if cd.kind == "mint" {
				classes["mint-cand"] = true
			}
		}
		if len(depSlots) >= 2 {
			classes["near-deposit-ids"] = true
		}
		check := func(where string) {
			for _, cd := range cands {
				for _, s := range cd.slots {
					got, err := vpC03Holder(l, cd, s)
					if err != nil {
						t.Fatalf("%s: reading %s: %v", where, s, err)
					}
					if got != m.holder[s] {
						t.Fatalf("%s: slot %s held by %s, model says %s\ntrace: %v", where, s, got, m.holder[s], trace)
					}
				}
				tx, fin, err := l.Store.ReadTransaction(cd.hash)
				if err != nil {
					t.Fatalf("%s: ReadTransaction: %v", where, err)
				}
				if (tx != nil) != m.body[cd.hash] {
					t.Fatalf("%s: body of %s present=%v, model says %v\ntrace: %v", where, cd.hash, tx != nil, m.body[cd.hash], trace)
				}
				if (fin != "") != m.final[cd.hash] {
					t.Fatalf("%s: %s finalized=%q, model says %v", where, cd.hash, fin, m.final[cd.hash])
				}
			}
		}
		for i := 0; i < nops; i++ {
			cd := cands[rapid.IntRange(0, len(cands)-1).Draw(t, "op_cand")]
			op := rapid.IntRange(0, 9).Draw(t, "op")
			switch {
			case op <= 4: // lock
				fork := op == 4 || op == 3 && rapid.Bool().Draw(t, "fork")
				before := vpLDump(l.Store)
				contended, displacedFinal := false, false
				for _, s := range cd.slots {
					if h := m.holder[s]; h.HasValue() && h != cd.hash {
						contended = true
						if m.final[h] {
							displacedFinal = true
						}
					}
				}
				relock := m.holdsAll(cd)
				before2 := map[string]crypto.Hash{}
				for _, s := range cd.slots {
					before2[s] = m.holder[s]
				}
				want := m.lock(cd, fork, byHash)
				err := cd.ver.LockInputs(l.Store, fork)
				trace = append(trace, fmt.Sprintf("lock(%s,%s,fork=%v)=%v", cd.kind, cd.hash.String()[:8], fork, err == nil))
				if (err == nil) != want {
					t.Fatalf("lock of %v by %s fork=%v returned %v, model expects success=%v\ntrace: %v", cd.slots, cd.hash, fork, err, want, trace)
				}
				if err != nil {
					if d := vpLDumpDiff(before, vpLDump(l.Store)); len(d) > 0 {
						t.Fatalf("failed lock (%d inputs) changed the store: %v", len(cd.slots), d[:min(len(d), 6)])
					}
					if cd.wide {
						classes["wide-lock-refused"] = true
						if first := slices.IndexFunc(cd.slots, func(s string) bool { h := before2[s]; return h.HasValue() && h != cd.hash }); first >= 64 {
							classes["wide-lock-refused-after-64-inputs"] = true
						}
					}
					if len(cd.slots) > 1 {
						classes["atomic-fail"] = true
					}
				}
				if contended {
					classes["contended"] = true
					if fork && err == nil {
						classes["takeover"] = true
					}
					if fork && displacedFinal {
						classes["takeover-refused"] = true
					}
				}
				if relock && err == nil {
					classes["relock"] = true
					if d := vpLDumpDiff(before, vpLDump(l.Store)); len(d) > 0 {
						t.Fatalf("re-reserving by the same transaction changed the store: %v", d)
					}
				}
			case op <= 6: // persist the body when the transaction holds all its slots
				if !m.holdsAll(cd) {
					continue
				}
				if cd.kind == "deposit" && (cd.ver.Inputs[0].Deposit.Chain != l.Assets[1].Chain || cd.ver.Inputs[0].Deposit.AssetKey != l.Assets[1].Key) {
					continue // the asset is bound to another (chain,key): the body is refused, by design
				}
				if err := l.Store.WriteTransaction(cd.ver); err != nil {
					t.Fatalf("WriteTransaction: %v", err)
				}
				m.body[cd.hash] = true
				trace = append(trace, fmt.Sprintf("persist(%s)", cd.hash.String()[:8]))
			case op <= 8: // finalize
				if !m.holdsAll(cd) || !m.body[cd.hash] || m.final[cd.hash] {
					continue
				}
				if cd.kind == "deposit" {
					// asset binding: only deposits matching the bound (chain,key) can finalize
					if cd.ver.Inputs[0].Deposit.Chain != l.Assets[1].Chain || cd.ver.Inputs[0].Deposit.AssetKey != l.Assets[1].Key {
						continue
					}
				}
				snap := l.MakeSnapshot(rapid.IntRange(0, 6).Draw(t, "chain"), []crypto.Hash{cd.hash}, l.Tick(10))
				if err := l.Store.WriteSnapshot(snap, l.NodeIds); err != nil {
					t.Fatalf("finalize: %v", err)
				}
				l.Topo++
				m.final[cd.hash] = true
				trace = append(trace, fmt.Sprintf("finalize(%s)", cd.hash.String()[:8]))
			default: // a transaction that funded the slots is finalized once more by another chain's snapshot: reservations on its outputs must survive
				if mt := l.StepRefinalize(t); mt != nil {
					trace = append(trace, fmt.Sprintf("refinalize-source(%s)", mt.Hash.String()[:8]))
					classes["source-refinalized"] = true
				}
			}
			check(fmt.Sprintf("after op %d", i))
		}
		var cl []string
		for k := range classes {
			cl = append(cl, k)
		}
		sort.Strings(cl)
		c.Case(fmt.Sprint(trace), classes["contended"] && classes["takeover"], cl...)
		if len(trace) > 12 {
			trace = trace[:12]
		}
		c.Sample(map[string]any{"candidates": len(cands), "ops": nops, "trace_head": trace})
	})
}

// Real goroutines: ordinary (non-takeover) lock requests race; afterwards every
// slot has at most one holder, every transaction whose call succeeded holds all
// of its slots, and no transaction whose call failed holds anything.
func TestVP_C03_concurrent(t *testing.T) {
	c := kit.New(t, "C03", "real goroutines (4..16, start barrier, run under -race): each candidate's ordinary lock request is issued concurrently (several times, from several goroutines); oracle: winners have pairwise disjoint slot sets and hold all their slots, losers hold none, a data race report is a violation; then takeover requests race and every displaced unfinalized body is gone while finalized holders stay; non-trivial = >=2 candidates contending for a slot; distinct by candidate set")
	c.Require("contended")
	kit.SetChecks(kit.N(40, 2000))
	rapid.Check(t, func(t *rapid.T) {
		l, cands := vpC03Setup(t, "c03c")
		defer l.Close()
		g := rapid.IntRange(4, 16).Draw(t, "goroutines")
		type res struct {
			cand int
			err  error
		}
		var mu sync.Mutex
		var results []res
		var wg sync.WaitGroup
		start := make(chan struct{})
		for w := 0; w < g; w++ {
			order := rapid.Permutation(vpLRange(len(cands))).Draw(t, "order")
			wg.Add(1)
			go func(order []int) {
				defer wg.Done()
				<-start
				for _, ci := range order {
					err := cands[ci].ver.LockInputs(l.Store, false)
					mu.Lock()
					results = append(results, res{ci, err})
					mu.Unlock()
				}
			}(order)
		}
		close(start)
		wg.Wait()
		okc := map[int]bool{}
		conflict := map[int]bool{}
		for _, r := range results {
			if r.err == nil {
				okc[r.cand] = true
			} else if r.err == badger.ErrConflict {
				conflict[r.cand] = true
			}
		}
		owner := map[string]int{}
		contended := false
		slotUsers := map[string]int{}
		for ci, cd := range cands {
			for _, s := range cd.slots {
				slotUsers[s]++
				if slotUsers[s] > 1 {
					contended = true
				}
				h, err := vpC03Holder(l, cd, s)
				if err != nil {
					t.Fatalf("read %s: %v", s, err)
				}
				if h == cd.hash {
					if prev, dup := owner[s]; dup && cands[prev].hash != cd.hash {
						t.Fatalf("slot %s has two holders", s)
					}
					owner[s] = ci
					if !okc[ci] {
						t.Fatalf("transaction %s holds %s although none of its lock calls succeeded", cd.hash, s)
					}
				} else if okc[ci] {
					t.Fatalf("lock call of %s succeeded but slot %s is held by %s", cd.hash, s, h)
				}
			}
		}
		// two successful candidates never share a slot
		for a := range okc {
			for b := range okc {
				if a >= b || cands[a].hash == cands[b].hash {
					continue
				}
				for _, s := range cands[a].slots {
					for _, s2 := range cands[b].slots {
						if s == s2 {
							t.Fatalf("ordinary admission of %s and %s both succeeded on slot %s", cands[a].hash, cands[b].hash, s)
						}
					}
				}
			}
		}
		cl := []string{}
		if contended {
			cl = append(cl, "contended")
		}
		c.Case(fmt.Sprint(len(cands), g, len(okc), contended, cands[0].hash), contended, cl...)
		c.Sample(map[string]any{"candidates": len(cands), "goroutines": g, "winners": len(okc), "badger_conflicts": len(conflict)})
	})
}
