//go:build verif

package storage

import (
	"errors"
	"fmt"
	"os"
	"sync"
	"testing"
	"time"

	"github.com/MixinNetwork/mixin/common"
	"github.com/MixinNetwork/mixin/crypto"
	"github.com/dgraph-io/badger/v4"
	"pgregory.net/rapid"
	kit "verifkit"
)

// One aggregator per chain submits round works concurrently (kernel/mint.go:
// AggregateMintWork runs per chain, writeRoundWork retries a submission that
// the store refuses with a commit conflict). The per-day signing counters are
// shared between chains, so the credits of one chain must survive the
// concurrent read-modify-write of another.
func TestVP_C26_concurrent_chains(t *testing.T) {
	c := kit.New(t, "C26", "rapid + real goroutines: 3..7 chains, each submitting 3..8 consecutive rounds of 1..4 snapshots on one day through WriteRoundWork from its own goroutine behind a start barrier, retrying on a commit conflict as kernel writeRoundWork does; every snapshot is signed by its proposer and 2..5 further nodes drawn from all chains, so the per-day signing counters are shared; oracle after all goroutines finished: ListNodeWorks gives for every node exactly (snapshots it proposed, snapshots of others it signed); non-trivial = >= 3 chains sharing signers; distinct by layout")
	c.Require("conflict-retried")
	kit.SetChecks(kit.N(25, 600))
	dir, err := os.MkdirTemp("", "vpC26c-")
	if err != nil {
		t.Fatal(err)
	}
	s := vpSOpenSnapshotsOnly(t, dir)
	t.Cleanup(func() {
		_ = vpSCloseSnapshotsOnly(s)
		_ = os.RemoveAll(dir)
	})
	caseNo := 0
	rapid.Check(t, func(t *rapid.T) {
		caseNo++
		nch := rapid.IntRange(3, 7).Draw(t, "chains")
		var nodes []crypto.Hash
		for i := 0; i < nch; i++ {
			nodes = append(nodes, crypto.Blake3Hash([]byte(fmt.Sprintf("c26c-node-%d-%d-%d", kit.Seed(), caseNo, i))))
		}
		day := uint32(20000 + caseNo)
		base := uint64(day)*DAY_U64 + uint64(time.Hour)
		lead := make([]uint64, nch)
		sign := make([]uint64, nch)
		type roundWork struct{ works []*common.SnapshotWork }
		plan := make([][]roundWork, nch)
		for ci := 0; ci < nch; ci++ {
			nr := rapid.IntRange(3, 8).Draw(t, "rounds")
			for r := 0; r < nr; r++ {
				var rw roundWork
				for k, ns := 0, rapid.IntRange(1, 4).Draw(t, "snaps"); k < ns; k++ {
					sw := &common.SnapshotWork{Hash: crypto.Blake3Hash([]byte(fmt.Sprintf("c26c-%d-%d-%d-%d-%d", kit.Seed(), caseNo, ci, r, k))),
						Timestamp: base + uint64(r)*uint64(3*time.Second) + uint64(k)*uint64(time.Millisecond)}
					sw.Signers = append(sw.Signers, nodes[ci])
					others := rapid.Permutation(vpLRange(nch)).Draw(t, "signers")
					want := rapid.IntRange(2, min(5, nch-1)).Draw(t, "nsigners")
					for _, o := range others {
						if o != ci && want > 0 {
							sw.Signers = append(sw.Signers, nodes[o])
							sign[o]++
							want--
						}
					}
					lead[ci]++
					rw.works = append(rw.works, sw)
				}
				plan[ci] = append(plan[ci], rw)
			}
		}
		start := make(chan struct{})
		var wg sync.WaitGroup
		errs := make([]error, nch)
		conflicts := make([]int, nch)
		for ci := 0; ci < nch; ci++ {
			wg.Add(1)
			go func(ci int) {
				defer wg.Done()
				<-start
				for r, rw := range plan[ci] {
					for try := 0; ; try++ {
						err := s26Write(s, nodes[ci], uint64(r), rw.works, true)
						if err == nil {
							break
						}
						if errors.Is(err, badger.ErrConflict) && try < 10000 {
							conflicts[ci]++
							time.Sleep(time.Duration(1+try%5) * time.Millisecond)
							continue
						}
						errs[ci] = fmt.Errorf("chain %d round %d: %v", ci, r, err)
						return
					}
				}
			}(ci)
		}
		close(start)
		wg.Wait()
		total := 0
		for ci, e := range errs {
			if e != nil {
				t.Fatalf("%v", e)
			}
			total += conflicts[ci]
		}
		got, err := s.ListNodeWorks(nodes, day)
		if err != nil {
			t.Fatalf("ListNodeWorks: %v", err)
		}
		for i, id := range nodes {
			if g := got[id]; g[0] != lead[i] || g[1] != sign[i] {
				t.Fatalf("node %d: works (proposed, signed) = (%d, %d) after %d chains submitted concurrently (%d conflicts retried), expected (%d, %d)", i, g[0], g[1], nch, total, lead[i], sign[i])
			}
		}
		classes := []string{}
		if total > 0 {
			classes = append(classes, "conflict-retried")
		}
		c.Case(fmt.Sprint(nch, lead, sign), nch >= 3, classes...)
		c.Sample(map[string]any{"chains": nch, "conflicts_retried": total, "proposed": lead, "signed": sign})
	})
}
