//go:build verif

package storage

import (
	"fmt"
	"testing"

	"github.com/MixinNetwork/mixin/common"
	"github.com/MixinNetwork/mixin/crypto"
	"pgregory.net/rapid"
	kit "verifkit"
)

// The kernel crash harness (package kernel) cuts execution at the boundaries
// between store calls. That is only a faithful crash model if every mutating
// store call is ONE durable write. This unit checks that assumption instead
// of trusting it: Badger hands out one commit timestamp per committed update
// transaction, so the number of commits a call consumed is the difference of
// DB.MaxVersion() around it. A call that commits twice has a crash point in
// its middle that the boundary model cannot see (finalization records and
// spendable outputs for a snapshot that is not in the store, inputs locked
// half-way, ...).

func vpC22Commits(s *BadgerStore, f func()) uint64 {
	v0 := s.snapshotsDB.MaxVersion()
	f()
	return s.snapshotsDB.MaxVersion() - v0
}

func TestVP_C22_single_commit(t *testing.T) {
	c := kit.New(t, "C22", "rapid: model-built ledgers (deposits, transfers, submits, claims, mints, pending and finalized) on which further admissions (Validate incl. ghost-key reservation, LockInputs over 1..4 inputs, deposit and mint locks, WriteTransaction) and finalizations (WriteSnapshot of 1..n pending batchable members, snapshots re-finalizing an already final member on another chain) are issued one store call at a time, followed by a round transition (StartNewRound of a chain whose head round holds snapshots) and an empty-head reference update; oracle: the number of Badger commits consumed by each call (difference of DB.MaxVersion around it) is exactly 1 for a successful WriteSnapshot / WriteTransaction of a new body, at most 1 for every other call and 0 for a failed call, and a full key/value dump is unchanged by a failed call; non-trivial = WriteSnapshot with >=2 members or LockInputs with >=2 inputs; distinct by call kind + snapshot/transaction hash")
	c.Require("WriteSnapshot", "WriteSnapshot-batch", "LockInputs-multi", "WriteTransaction", "Validate", "refinalize", "failed-call", "round-transition", "empty-head-update")
	kit.SetChecks(kit.N(60, 6000))
	rapid.Check(t, func(t *rapid.T) {
		l := vpLNewLedger(7, "c22s", 5)
		defer l.Close()
		l.Grow(t, rapid.IntRange(5, 14).Draw(t, "grow"))
		steps := rapid.IntRange(6, 20).Draw(t, "steps")
		judge := func(kind string, id string, commits uint64, failed bool, exact bool, nontrivial bool, classes ...string) {
			switch {
			case failed && commits != 0:
				t.Fatalf("%s failed but consumed %d database commits", kind, commits)
			case !failed && commits > 1:
				t.Fatalf("%s was committed in %d separate database writes: a crash between them leaves a partial effect", kind, commits)
			case !failed && exact && commits != 1:
				t.Fatalf("%s reported success with %d database commits", kind, commits)
			}
			c.Case(kind+id, nontrivial, append(classes, kind)...)
		}
		admit := func(ver *common.VersionedTransaction, kindName string) bool {
			ts := l.Tick(uint64(rapid.IntRange(1, 1000000).Draw(t, "dt")))
			var err error
			n := vpC22Commits(l.Store, func() { err = ver.Validate(l.Store, ts, false) })
			judge("Validate", ver.PayloadHash().String(), n, err != nil, false, false)
			if err != nil {
				t.Fatalf("model-valid %s rejected: %v", kindName, err)
			}
			n = vpC22Commits(l.Store, func() { err = ver.LockInputs(l.Store, false) })
			multi := len(ver.Inputs) >= 2
			cl := []string{}
			if multi {
				cl = append(cl, "LockInputs-multi")
			}
			judge("LockInputs", ver.PayloadHash().String(), n, err != nil, true, multi, cl...)
			if err != nil {
				t.Fatalf("lock of model-valid %s: %v", kindName, err)
			}
			n = vpC22Commits(l.Store, func() { err = l.Store.WriteTransaction(ver) })
			judge("WriteTransaction", ver.PayloadHash().String(), n, err != nil, true, false)
			if err != nil {
				t.Fatalf("persist of model-valid %s: %v", kindName, err)
			}
			l.noteAdmitted(ver, kindName)
			return true
		}
		for i := 0; i < steps; i++ {
			switch k := rapid.IntRange(0, 9).Draw(t, "step"); {
			case k <= 2: // transfer
				p := l.DrawSpend(t, 4, 3)
				if p == nil {
					continue
				}
				tx := l.BuildSpend(p.Asset, p.Ins, p.Outs, nil, nil)
				admit(l.SignMaps(tx, p.Ins, p.Signers), "transfer")
			case k <= 4: // deposit
				a := &l.Assets[rapid.IntRange(0, len(l.Assets)-1).Draw(t, "dep_asset")]
				room := vpLBig(common.GetAssetCapacity(a.Id))
				room.Sub(room, l.total(a.Id))
				room.Sub(room, l.pendingDeposits(a.Id))
				if room.Cmp(vpLBig(common.NewInteger(3))) <= 0 {
					continue
				}
				owners, th := l.vpLDrawOwners(t, 3, "dep")
				l.Seq++
				admit(l.BuildDeposit(a, common.NewInteger(uint64(rapid.IntRange(1, 2).Draw(t, "dep_amt"))), vpLOut{Owners: owners, Threshold: th}, fmt.Sprintf("0xc22s%d", l.Seq), uint64(rapid.IntRange(0, 2).Draw(t, "dep_idx")), nil), "deposit")
			case k <= 7: // finalize a batch of pending batchable members
				var hs []crypto.Hash
				for _, x := range l.PendingTxs() {
					if x.Ver.IsSnapshotBatchable() && !x.Poison && (len(hs) == 0 || rapid.Bool().Draw(t, "member")) {
						hs = append(hs, x.Hash)
					}
				}
				if len(hs) == 0 {
					continue
				}
				chain := rapid.IntRange(0, len(l.NodeIds)-1).Draw(t, "chain")
				snap := l.MakeSnapshot(chain, hs, l.Tick(uint64(rapid.IntRange(1, 1000000).Draw(t, "dt"))))
				var err error
				n := vpC22Commits(l.Store, func() { err = l.Finalize(snap) })
				cl := []string{}
				if len(hs) >= 2 {
					cl = append(cl, "WriteSnapshot-batch")
				}
				judge("WriteSnapshot", snap.Hash.String(), n, err != nil, true, len(hs) >= 2, cl...)
				if err != nil {
					t.Fatalf("finalizing %d admitted members failed: %v", len(hs), err)
				}
			case k == 8: // an already final member finalized again by another chain's snapshot
				before := l.Store.snapshotsDB.MaxVersion()
				if mt := l.StepRefinalize(t); mt != nil {
					// StepRefinalize issues exactly one WriteSnapshot
					n := l.Store.snapshotsDB.MaxVersion() - before
					judge("WriteSnapshot", "re-"+mt.Hash.String(), n, false, true, true, "refinalize")
				}
			default: // a call that must fail: locking the inputs of a pending transaction for another one
				var victim *vpLTx
				for _, x := range l.PendingTxs() {
					if x.Kind == "transfer" && len(x.Ver.Inputs) > 0 && x.Ver.Inputs[0].Deposit == nil && x.Ver.Inputs[0].Mint == nil {
						victim = x
						break
					}
				}
				if victim == nil {
					continue
				}
				other := crypto.Blake3Hash([]byte(fmt.Sprintf("c22s-foreign-%d", i)))
				dump := vpLDump(l.Store)
				var err error
				n := vpC22Commits(l.Store, func() { err = l.Store.LockUTXOs(victim.Ver.Inputs, other, false) })
				if err == nil {
					t.Fatalf("foreign ordinary lock of held inputs succeeded")
				}
				if d := vpLDumpDiff(dump, vpLDump(l.Store)); len(d) > 0 {
					t.Fatalf("failed LockUTXOs changed the database: %v", d[:min(len(d), 6)])
				}
				judge("LockInputs", "foreign-"+other.String(), n, true, false, true, "failed-call")
			}
		}
		// round transitions: closing the head round of a chain that holds
		// snapshots (final round record, link and new head in one write), then
		// moving the empty head to another external reference
		for tries := 0; tries < 3; tries++ {
			ci := rapid.IntRange(0, len(l.NodeIds)-1).Draw(t, "round_chain")
			oi := (ci + 1 + rapid.IntRange(0, len(l.NodeIds)-2).Draw(t, "round_ext")) % len(l.NodeIds)
			node := l.NodeIds[ci]
			head, err := l.Store.ReadRound(node)
			if err != nil || head == nil {
				t.Fatalf("head round: %v", err)
			}
			topos, err := l.Store.ReadSnapshotsForNodeRound(node, head.Number)
			if err != nil {
				t.Fatalf("round snapshots: %v", err)
			}
			if len(topos) == 0 {
				continue
			}
			var snaps []*common.Snapshot
			for _, tp := range topos {
				sn := tp.Snapshot
				sn.Hash = sn.PayloadHash()
				snaps = append(snaps, sn)
			}
			start, _, selfHash := common.ComputeRoundHash(node, head.Number, snaps)
			ext, err := l.Store.ReadRound(l.NodeIds[oi])
			if err != nil || ext == nil {
				t.Fatalf("external head: %v", err)
			}
			refs := &common.RoundLink{Self: selfHash, External: ext.References.Self}
			var serr error
			n := vpC22Commits(l.Store, func() { serr = l.Store.StartNewRound(node, head.Number+1, refs, start) })
			judge("StartNewRound", fmt.Sprint(node, head.Number+1), n, serr != nil, true, true, "round-transition")
			if serr != nil {
				t.Fatalf("round transition of chain %d to round %d: %v", ci, head.Number+1, serr)
			}
			o2 := (ci + 1 + rapid.IntRange(0, len(l.NodeIds)-2).Draw(t, "round_ext2")) % len(l.NodeIds)
			ext2, err := l.Store.ReadRound(l.NodeIds[o2])
			if err != nil || ext2 == nil {
				t.Fatalf("external head: %v", err)
			}
			if link, _ := l.Store.ReadLink(node, l.NodeIds[o2]); link > ext2.Number-1 {
				continue
			}
			var uerr error
			n = vpC22Commits(l.Store, func() {
				uerr = l.Store.UpdateEmptyHeadRound(node, head.Number+1, &common.RoundLink{Self: selfHash, External: ext2.References.Self})
			})
			judge("UpdateEmptyHeadRound", fmt.Sprint(node, head.Number+1, o2), n, uerr != nil, true, true, "empty-head-update")
			if uerr != nil {
				t.Fatalf("empty head update of chain %d: %v", ci, uerr)
			}
			break
		}
	})
}
