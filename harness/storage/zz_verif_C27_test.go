//go:build verif

package storage

import (
	"bytes"
	"fmt"
	"os"
	"sort"
	"strings"
	"testing"
	"time"

	"github.com/MixinNetwork/mixin/common"
	"github.com/MixinNetwork/mixin/crypto"
	"github.com/dgraph-io/badger/v4"
	"pgregory.net/rapid"
	kit "verifkit"
)

// ---- reference lifecycle machine (written from the statement) ---------------

type vpC27Rec struct {
	Ts     uint64
	Signer crypto.Key
	Payee  crypto.Key
	Tx     crypto.Hash
	State  string
}

type vpC27Model struct {
	hist []vpC27Rec // accepted records in the order they were written (timestamps strictly increase after genesis)
}

func (m *vpC27Model) latest(upTo uint64) map[crypto.Key]vpC27Rec {
	out := map[crypto.Key]vpC27Rec{}
	for _, r := range m.sorted(upTo) {
		out[r.Signer] = r
	}
	return out
}

func (m *vpC27Model) sorted(upTo uint64) []vpC27Rec {
	out := []vpC27Rec{}
	for _, r := range m.hist {
		if r.Ts <= upTo {
			out = append(out, r)
		}
	}
	sort.SliceStable(out, func(i, j int) bool {
		if out[i].Ts != out[j].Ts {
			return out[i].Ts < out[j].Ts
		}
		return bytes.Compare(out[i].Signer[:], out[j].Signer[:]) < 0
	})
	return out
}

func (m *vpC27Model) pledging() []vpC27Rec {
	var out []vpC27Rec
	for _, r := range m.latest(^uint64(0)) {
		if r.State == common.NodeStatePledging {
			out = append(out, r)
		}
	}
	return out
}

// legal says whether the statement allows recording op now.
func (m *vpC27Model) legal(kind string, signer, payee crypto.Key) (bool, string) {
	latest := m.latest(^uint64(0))
	pl := m.pledging()
	switch kind {
	case "pledge":
		if len(pl) > 0 {
			return false, "another node is pledging"
		}
		if _, seen := latest[signer]; seen {
			return false, "signer key already used by a node"
		}
		return true, ""
	case "accept", "cancel":
		if len(pl) != 1 || pl[0].Signer != signer {
			return false, "signer is not the node currently pledging"
		}
		if pl[0].Payee != payee {
			return false, "payee does not match the pledge"
		}
		return true, ""
	case "remove":
		// the statement asks nothing about a pledge pending elsewhere; the writers
		// happen to refuse a removal while the pledge is the newest record
		r, ok := latest[signer]
		if !ok || r.State != common.NodeStateAccepted {
			return false, "node is not currently accepted"
		}
		if r.Payee != payee {
			return false, "payee does not match the node"
		}
		return true, ""
	}
	panic(kind)
}

func vpC27StateOf(kind string) string {
	switch kind {
	case "pledge":
		return common.NodeStatePledging
	case "accept":
		return common.NodeStateAccepted
	case "cancel":
		return common.NodeStateCancelled
	case "remove":
		return common.NodeStateRemoved
	}
	panic(kind)
}

// ---- store access -----------------------------------------------------------

func vpC27Apply(s *BadgerStore, kind string, signer, payee crypto.Key, tx crypto.Hash, ts uint64) (err error, panicked string) {
	panicked = vpSCatch(func() {
		err = s.snapshotsDB.Update(func(txn *badger.Txn) error {
			switch kind {
			case "pledge":
				return writeNodePledge(txn, signer, payee, tx, ts)
			case "accept":
				return writeNodeAccept(txn, signer, payee, tx, ts, false)
			case "cancel":
				return writeNodeCancel(txn, signer, payee, tx, ts)
			case "remove":
				return writeNodeRemove(txn, signer, payee, tx, ts)
			}
			panic(kind)
		})
	})
	return err, panicked
}

func vpC27Compare(t *rapid.T, s *BadgerStore, m *vpC27Model, thr uint64, when string) {
	want := m.sorted(thr)
	got := s.ReadAllNodes(thr, true)
	if len(got) != len(want) {
		t.Fatalf("%s: ReadAllNodes(%d,true) has %d records, membership history has %d", when, thr, len(got), len(want))
	}
	for i, w := range want {
		g := got[i]
		if g.Timestamp != w.Ts || g.Signer.PublicSpendKey != w.Signer || g.Payee.PublicSpendKey != w.Payee || g.Transaction != w.Tx || g.State != w.State {
			t.Fatalf("%s: record %d of ReadAllNodes(%d,true) = (%d %s %s %s %s), history has (%d %s %s %s %s)", when, i, thr,
				g.Timestamp, g.Signer.PublicSpendKey, g.Payee.PublicSpendKey, g.Transaction, g.State, w.Ts, w.Signer, w.Payee, w.Tx, w.State)
		}
		if g.Signer.PublicViewKey != g.Signer.PublicSpendKey.DeterministicHashDerive().Public() {
			t.Fatalf("%s: signer view key of record %d does not follow the node key rule", when, i)
		}
	}
	latest := m.latest(thr)
	cur := s.ReadAllNodes(thr, false)
	if len(cur) != len(latest) {
		t.Fatalf("%s: ReadAllNodes(%d,false) reports %d nodes, history has %d signers", when, thr, len(cur), len(latest))
	}
	seen := map[crypto.Key]bool{}
	for _, g := range cur {
		k := g.Signer.PublicSpendKey
		if seen[k] {
			t.Fatalf("%s: signer %s reported twice", when, k)
		}
		seen[k] = true
		w, ok := latest[k]
		if !ok || g.Timestamp != w.Ts || g.State != w.State || g.Payee.PublicSpendKey != w.Payee || g.Transaction != w.Tx {
			t.Fatalf("%s: ReadAllNodes(%d,false) reports %s as %s@%d tx %s, latest record is %s@%d tx %s (known=%v)", when, thr, k, g.State, g.Timestamp, g.Transaction, w.State, w.Ts, w.Tx, ok)
		}
	}
}

type vpC27Shared struct {
	dir    string
	s      *BadgerStore
	gns    *common.Genesis
	rounds []*common.Round
	snaps  []*common.SnapshotWithTopologicalOrder
	txs    []*common.VersionedTransaction
	pool   []common.Address // extra signer/payee candidates
}

func vpC27Open(t *testing.T) *vpC27Shared {
	dir, err := os.MkdirTemp("", "vpC27-")
	if err != nil {
		t.Fatal(err)
	}
	sh := &vpC27Shared{dir: dir, s: vpSOpenSnapshotsOnly(t, dir), gns: vpSGenesis(7)}
	sh.rounds, sh.snaps, sh.txs, err = sh.gns.BuildSnapshots()
	if err != nil {
		t.Fatal(err)
	}
	for i := 0; i < 12; i++ {
		sh.pool = append(sh.pool, vpSNodeAddress(vpSSeed("C27-pool", i)))
	}
	t.Cleanup(func() {
		_ = vpSCloseSnapshotsOnly(sh.s)
		_ = os.RemoveAll(dir)
	})
	return sh
}

var vpC27Gaps = []uint64{1, 2, uint64(time.Second), uint64(30 * time.Second), uint64(time.Hour), uint64(12*time.Hour) - 1, uint64(12 * time.Hour), uint64(12*time.Hour) + 1,
	uint64(24 * time.Hour), uint64(7*24*time.Hour) - 1, uint64(7*24*time.Hour) + 1, uint64(8 * 24 * time.Hour)}

func TestVP_C27_lifecycle(t *testing.T) {
	c := kit.New(t, "C27", "rapid T.Repeat on a genesis-loaded store (7 accepted nodes, reset per case): pledge/accept/cancel/remove written directly with writeNodePledge/Accept/Cancel/Remove inside one Badger transaction each; signer and payee drawn from the genesis keys plus 12 pool keys (reuse likely), timestamps from a frontier advancing by gaps from {1 ns .. 8 d incl. 12 h +-1, 7 d +-1}; a third of the ops the machine forbids, of the removals and of the allowed pledges are backdated by < 12 h (frontier-1ns/-1s/-1h/-12h+2, just below or strictly between the two newest records; an allowed removal never below its own node's latest record), transaction hashes fresh or reused from earlier records; about half of the ops are built to be legal in the reference machine, the rest are arbitrary (accept without pledge, second pledge, wrong payee, reused signer, remove of pledging/removed/unknown node ...). Oracle: an op the store recorded must be legal in the lifecycle machine written from the statement; after every op ReadAllNodes(inf,true) equals the recorded history in (timestamp, signer) order and ReadAllNodes(thr,false) (thr = inf and drawn thresholds) reports every signer once with its latest record; legal ops that are rejected are only counted; non-trivial = history with a pledge->accept->remove cycle of one node and >=2 rejected ops; distinct by op trace")
	c.Require("backdated", "backdated-below-newest-record", "illegal:resolve-again", "illegal:remove-again", "cycle", "rejected-illegal", "pledge", "accept", "cancel", "remove", "illegal:wrong-payee", "illegal:accept-without-pledge", "illegal:second-pledge", "illegal:reused-signer", "remove-offered-while-pledging", "backdated-allowed-pledge", "illegal:remove-not-accepted", "pledge-with-latest-tx", "threshold-read")
	c.Assume("accept/cancel the machine allows carry a timestamp above every recorded one (the kernel's operation lock and accept window guarantee it); no timestamp lies 12 h or more below the newest record (the writers' look-ahead)", "a pledge whose transaction hash equals the transaction of a superseded (non-latest) record is not judged: payload hashes are unique in the kernel, the store only checks latest records")
	kit.SetChecks(kit.N(300, 15000))
	kit.SetSteps(24)
	sh := vpC27Open(t)
	var legalTotal, legalAccepted int
	rapid.Check(t, func(t *rapid.T) {
		vpSWipe(t, sh.s)
		if err := sh.s.LoadGenesis(sh.rounds, sh.snaps, sh.txs); err != nil {
			t.Fatalf("LoadGenesis: %v", err)
		}
		m := &vpC27Model{}
		epoch := sh.gns.EpochTimestamp()
		var keys []crypto.Key // every key that may be used as signer or payee
		for i, in := range sh.gns.Nodes {
			m.hist = append(m.hist, vpC27Rec{Ts: epoch, Signer: in.Signer.PublicSpendKey, Payee: in.Payee.PublicSpendKey,
				Tx: sh.txs[i].PayloadHash(), State: common.NodeStateAccepted})
			keys = append(keys, in.Signer.PublicSpendKey, in.Payee.PublicSpendKey)
		}
		for _, a := range sh.pool {
			keys = append(keys, a.PublicSpendKey)
		}
		vpC27Compare(t, sh.s, m, ^uint64(0), "after genesis")
		now := epoch + 1 + rapid.Uint64Range(0, uint64(48*time.Hour)).Draw(t, "start")
		txCounter := 0
		var trace []string
		cls := map[string]bool{}
		rejected := 0
		cycle := map[crypto.Key]int{} // 1 pledged, 2 accepted, 3 removed (by our ops)

		freshKey := func() (crypto.Key, bool) {
			latest := m.latest(^uint64(0))
			cand := []crypto.Key{}
			for _, a := range sh.pool {
				if _, used := latest[a.PublicSpendKey]; !used {
					cand = append(cand, a.PublicSpendKey)
				}
			}
			if len(cand) == 0 {
				return crypto.Key{}, false
			}
			return rapid.SampledFrom(cand).Draw(t, "fresh_signer"), true
		}
		step := func(t *rapid.T, wantLegal bool) {
			kind := rapid.SampledFrom([]string{"pledge", "accept", "cancel", "remove"}).Draw(t, "kind")
			signer := rapid.SampledFrom(keys).Draw(t, "signer")
			payee := rapid.SampledFrom(keys).Draw(t, "payee")
			if wantLegal {
				pl := m.pledging()
				if len(pl) > 0 {
					kind = rapid.SampledFrom([]string{"accept", "accept", "cancel"}).Draw(t, "resolve")
					signer, payee = pl[0].Signer, pl[0].Payee
				} else {
					kind = rapid.SampledFrom([]string{"pledge", "pledge", "remove"}).Draw(t, "open")
					if kind == "pledge" {
						k, ok := freshKey()
						if !ok {
							kind = "remove"
						} else {
							signer = k
						}
					}
					if kind == "remove" {
						var acc []vpC27Rec
						for _, r := range m.latest(^uint64(0)) {
							if r.State == common.NodeStateAccepted {
								acc = append(acc, r)
							}
						}
						if len(acc) == 0 {
							return
						}
						sort.Slice(acc, func(i, j int) bool { return bytes.Compare(acc[i].Signer[:], acc[j].Signer[:]) < 0 })
						r := rapid.SampledFrom(acc).Draw(t, "victim")
						signer, payee = r.Signer, r.Payee
					}
				}
			} else {
				// targeted near misses on top of the uniform choice
				switch rapid.IntRange(0, 8).Draw(t, "near_miss") {
				case 0: // right node, wrong payee
					if pl := m.pledging(); len(pl) > 0 {
						kind, signer = rapid.SampledFrom([]string{"accept", "cancel"}).Draw(t, "k"), pl[0].Signer
					}
				case 1: // remove an accepted node with its own payee, whatever the rest of the state is
					var acc []vpC27Rec
					for _, r := range m.latest(^uint64(0)) {
						if r.State == common.NodeStateAccepted {
							acc = append(acc, r)
						}
					}
					if len(acc) > 0 {
						sort.Slice(acc, func(i, j int) bool { return bytes.Compare(acc[i].Signer[:], acc[j].Signer[:]) < 0 })
						r := rapid.SampledFrom(acc).Draw(t, "victim")
						kind, signer, payee = "remove", r.Signer, r.Payee
					}
				case 2: // pledge of a fresh signer, whatever the rest of the state is
					if k, ok := freshKey(); ok {
						kind, signer = "pledge", k
					}
				case 3, 4: // resolve once more a node whose pledge is already resolved, with its own keys
					var done []vpC27Rec
					for _, r := range m.latest(^uint64(0)) {
						if cycle[r.Signer] > 0 && r.State != common.NodeStatePledging {
							done = append(done, r)
						}
					}
					if len(done) > 0 {
						sort.Slice(done, func(i, j int) bool { return done[i].Ts > done[j].Ts })
						r := done[rapid.IntRange(0, min(len(done)-1, 1)).Draw(t, "resolved")]
						kind, signer, payee = rapid.SampledFrom([]string{"accept", "cancel"}).Draw(t, "k"), r.Signer, r.Payee
						cls["illegal:resolve-again"] = true
					}
				case 5: // remove once more a removed node, with its own keys
					var gone []vpC27Rec
					for _, r := range m.latest(^uint64(0)) {
						if r.State == common.NodeStateRemoved {
							gone = append(gone, r)
						}
					}
					if len(gone) > 0 {
						sort.Slice(gone, func(i, j int) bool { return gone[i].Ts > gone[j].Ts })
						kind, signer, payee = "remove", gone[0].Signer, gone[0].Payee
						cls["illegal:remove-again"] = true
					}
				}
			}
			// transaction hash: fresh, or one that already appears in the history
			txCounter++
			tx := crypto.Blake3Hash([]byte(fmt.Sprintf("vpC27-tx-%d", txCounter)))
			txClass := "fresh"
			if rapid.IntRange(0, 5).Draw(t, "reuse_tx") == 0 {
				r := m.hist[rapid.IntRange(0, len(m.hist)-1).Draw(t, "reuse_from")]
				tx = r.Tx
				txClass = "superseded"
				for _, l := range m.latest(^uint64(0)) {
					if l.Tx == tx {
						txClass = "latest"
					}
				}
			}
			ok, why := m.legal(kind, signer, payee)
			// Finalization order is topological, not by timestamp: an op may carry a
			// timestamp below records already written (the writers look 12 h ahead for
			// that reason). Ops the machine forbids are offered backdated by < 12 h, in
			// particular just below the newest record; of the allowed ops only a removal
			// can be backdated without predating its own node's latest record.
			frontier := now
			now += rapid.SampledFrom(vpC27Gaps).Draw(t, "gap")
			ts := now
			if len(m.pledging()) > 0 && kind == "remove" {
				cls["remove-offered-while-pledging"] = true
			}
			if (!ok || kind == "remove" || kind == "pledge") && rapid.IntRange(0, 2).Draw(t, "backdate") == 0 {
				newest := m.sorted(^uint64(0))
				top := newest[len(newest)-1].Ts
				cands := []uint64{frontier - 1, frontier - uint64(time.Second), frontier - uint64(time.Hour), frontier - uint64(12*time.Hour) + 2, top - 1, top - 2, top - uint64(time.Minute)}
				if len(newest) > 1 {
					// strictly between the two newest records
					if lo, hi := newest[len(newest)-2].Ts, top; hi-lo > 1 {
						cands = append(cands, lo+1+rapid.Uint64Range(0, hi-lo-2).Draw(t, "between"))
					}
				}
				b := rapid.SampledFrom(cands).Draw(t, "backdated_ts")
				own, has := m.latest(^uint64(0))[signer]
				if b > epoch && b < frontier && frontier-b <= uint64(12*time.Hour)-2 && (!ok || !has || b > own.Ts) {
					ts, now = b, frontier
					cls["backdated"] = true
					if ok && kind == "pledge" {
						cls["backdated-allowed-pledge"] = true
					}
					if b < top {
						cls["backdated-below-newest-record"] = true
					}
				}
			}
			now, ts = ts, now // below, "now" is the op's timestamp; the frontier is restored after the op
			defer func() { now = ts }()
			err, panicked := vpC27Apply(sh.s, kind, signer, payee, tx, now)
			if panicked != "" {
				t.Fatalf("%s(%s,%s) at %d panicked: %s", kind, signer, payee, now, panicked)
			}
			if ok {
				legalTotal++
			}
			if err == nil {
				if !ok {
					t.Fatalf("membership history recorded an illegal %s of signer %s payee %s at %d: %s\nhistory: %s", kind, signer, payee, now, why, strings.Join(trace, " "))
				}
				if kind == "pledge" && txClass == "latest" {
					t.Fatalf("pledge of %s recorded with transaction %s, which is the transaction of another node's latest record", signer, tx)
				}
				legalAccepted++
				m.hist = append(m.hist, vpC27Rec{Ts: now, Signer: signer, Payee: payee, Tx: tx, State: vpC27StateOf(kind)})
				cls[kind] = true
				switch kind {
				case "pledge":
					cycle[signer] = 1
					if txClass == "superseded" {
						cls["pledge-with-superseded-tx-accepted"] = true
					}
				case "accept":
					if cycle[signer] == 1 {
						cycle[signer] = 2
					}
				case "remove":
					if cycle[signer] == 2 {
						cls["cycle"] = true
					}
				}
				trace = append(trace, fmt.Sprintf("%s(%x,%x)", kind[:1], signer[:2], payee[:2]))
			} else {
				rejected++
				if ok {
					if kind == "pledge" && txClass == "latest" {
						cls["pledge-with-latest-tx"] = true
					} else {
						cls["rejected-legal"] = true
						c.Class("rejected-legal:" + kind)
					}
				} else {
					cls["rejected-illegal"] = true
					switch why {
					case "payee does not match the pledge", "payee does not match the node":
						cls["illegal:wrong-payee"] = true
					case "signer is not the node currently pledging":
						if len(m.pledging()) == 0 {
							cls["illegal:accept-without-pledge"] = true
						} else {
							cls["illegal:accept-other-node"] = true
						}
					case "another node is pledging":
						cls["illegal:second-pledge"] = true
					case "signer key already used by a node":
						cls["illegal:reused-signer"] = true
					case "node is not currently accepted":
						cls["illegal:remove-not-accepted"] = true
					}
				}
				trace = append(trace, fmt.Sprintf("!%s(%x,%x)", kind[:1], signer[:2], payee[:2]))
			}
			vpC27Compare(t, sh.s, m, ^uint64(0), "after "+trace[len(trace)-1])
			if rapid.IntRange(0, 3).Draw(t, "thr_read") == 0 {
				r := m.hist[rapid.IntRange(0, len(m.hist)-1).Draw(t, "thr_rec")]
				thr := r.Ts + uint64(rapid.IntRange(0, 2).Draw(t, "thr_delta")) - 1
				vpC27Compare(t, sh.s, m, thr, fmt.Sprintf("threshold read at %d", thr))
				cls["threshold-read"] = true
			}
		}
		t.Repeat(map[string]func(*rapid.T){
			"legal":     func(t *rapid.T) { step(t, true) },
			"arbitrary": func(t *rapid.T) { step(t, false) },
		})
		// signer keys never repeat across nodes: every signer has exactly one pledge
		// or genesis record, and it is the first record of that signer
		first := map[crypto.Key]string{}
		for _, r := range m.sorted(^uint64(0)) {
			if _, ok := first[r.Signer]; !ok {
				first[r.Signer] = r.State
				continue
			}
			if r.State == common.NodeStatePledging {
				t.Fatalf("signer %s pledged although the key was used before", r.Signer)
			}
		}
		names := []string{}
		for k := range cls {
			names = append(names, k)
		}
		sort.Strings(names)
		c.Case(strings.Join(trace, " "), cls["cycle"] && rejected >= 2, names...)
		c.Sample(strings.Join(trace, " "))
	})
	c.Set("legal_ops", legalTotal)
	c.Set("legal_ops_recorded", legalAccepted)
	if legalTotal > 0 && legalAccepted*10 < legalTotal*3 && !t.Failed() {
		kit.Inconclusive(t, "only %d of %d model-legal operations were recorded by the store: the check would be vacuous", legalAccepted, legalTotal)
	}
}
