//go:build verif

package storage

// Part (c) of C28: the durable CONSENSUSSNAPSHOT chain written by
// WriteConsensusSnapshot. Parts (a) and (b) live in package kernel.

import (
	"encoding/binary"
	"fmt"
	"os"
	"sort"
	"strings"
	"testing"

	"github.com/MixinNetwork/mixin/common"
	"github.com/MixinNetwork/mixin/crypto"
	"github.com/dgraph-io/badger/v4"
	"pgregory.net/rapid"
	kit "verifkit"
)

type vpC28Op struct {
	Snap *common.Snapshot
	Tx   *common.VersionedTransaction
}

type vpC28Record struct {
	Ts    uint64
	Snap  crypto.Hash
	Value []byte
}

func vpC28ReadRecords(s *BadgerStore) ([]vpC28Record, error) {
	var out []vpC28Record
	err := s.snapshotsDB.View(func(txn *badger.Txn) error {
		opts := badger.DefaultIteratorOptions
		opts.Prefix = []byte(graphPrefixConsensusSnapshot)
		it := txn.NewIterator(opts)
		defer it.Close()
		for it.Seek(opts.Prefix); it.Valid(); it.Next() {
			k := it.Item().KeyCopy(nil)[len(graphPrefixConsensusSnapshot):]
			if len(k) != 8+32 {
				return fmt.Errorf("malformed consensus snapshot key of %d bytes", len(k))
			}
			r := vpC28Record{Ts: binary.BigEndian.Uint64(k[:8])}
			copy(r.Snap[:], k[8:])
			v, err := it.Item().ValueCopy(nil)
			if err != nil {
				return err
			}
			r.Value = v
			out = append(out, r)
		}
		return nil
	})
	return out, err
}

// vpC28CheckChain is oracle (c): the records, read in key order, are one chain.
func vpC28CheckChain(t *rapid.T, s *BadgerStore, txs map[crypto.Hash]*common.VersionedTransaction, model []vpC28Op, when string) {
	recs, err := vpC28ReadRecords(s)
	if err != nil {
		t.Fatalf("%s: %v", when, err)
	}
	var soles []crypto.Hash
	for i, r := range recs {
		snap, err := s.ReadSnapshot(r.Snap)
		if err != nil || snap == nil {
			t.Fatalf("%s: consensus record %d names snapshot %s which is not stored (%v)", when, i, r.Snap, err)
		}
		if len(snap.Transactions) != 1 {
			t.Fatalf("%s: consensus record %d: snapshot %s has %d transactions", when, i, r.Snap, len(snap.Transactions))
		}
		if snap.Timestamp != r.Ts {
			t.Fatalf("%s: consensus record %d keyed at %d but its snapshot is at %d", when, i, r.Ts, snap.Timestamp)
		}
		if i > 0 && recs[i-1].Ts >= r.Ts {
			t.Fatalf("%s: consensus record timestamps not strictly increasing: %d then %d", when, recs[i-1].Ts, r.Ts)
		}
		soles = append(soles, snap.Transactions[0])
	}
	for i, r := range recs {
		if i == len(recs)-1 {
			if len(r.Value) != 0 {
				t.Fatalf("%s: the last consensus record has a successor value %x", when, r.Value)
			}
			break
		}
		if string(r.Value) != string(soles[i+1][:]) {
			t.Fatalf("%s: consensus record %d links to %x, the next record's transaction is %s", when, i, r.Value, soles[i+1])
		}
	}
	for i := 1; i < len(recs); i++ {
		tx := txs[soles[i]]
		if tx == nil {
			t.Fatalf("%s: consensus record %d holds an unknown transaction %s", when, i, soles[i])
		}
		if len(tx.References) < 1 || tx.References[0] != soles[i-1] {
			t.Fatalf("%s: consensus operation %s at record %d does not reference the previous recorded operation %s", when, soles[i], i, soles[i-1])
		}
	}
	if len(recs) != len(model) {
		t.Fatalf("%s: %d consensus records, %d operations were valid", when, len(recs), len(model))
	}
	for i, op := range model {
		if recs[i].Snap != op.Snap.PayloadHash() || recs[i].Ts != op.Snap.Timestamp {
			t.Fatalf("%s: consensus record %d is (%d,%s), expected (%d,%s)", when, i, recs[i].Ts, recs[i].Snap, op.Snap.Timestamp, op.Snap.PayloadHash())
		}
	}
	last, err := s.ReadLastConsensusSnapshot()
	if err != nil || last == nil || last.PayloadHash() != model[len(model)-1].Snap.PayloadHash() {
		t.Fatalf("%s: ReadLastConsensusSnapshot does not return the end of the chain (%v)", when, err)
	}
}

type vpC28Shared struct {
	s      *BadgerStore
	gns    *common.Genesis
	rounds []*common.Round
	snaps  []*common.SnapshotWithTopologicalOrder
	txs    []*common.VersionedTransaction
	nodes  []crypto.Hash
}

func vpC28Open(t *testing.T) *vpC28Shared {
	dir, err := os.MkdirTemp("", "vpC28-")
	if err != nil {
		t.Fatal(err)
	}
	sh := &vpC28Shared{s: vpSOpenSnapshotsOnly(t, dir), gns: vpSGenesis(7)}
	sh.rounds, sh.snaps, sh.txs, err = sh.gns.BuildSnapshots()
	if err != nil {
		t.Fatal(err)
	}
	nid := sh.gns.NetworkId()
	for _, in := range sh.gns.Nodes {
		sh.nodes = append(sh.nodes, in.Signer.Hash().ForNetwork(nid))
	}
	t.Cleanup(func() {
		_ = vpSCloseSnapshotsOnly(sh.s)
		_ = os.RemoveAll(dir)
	})
	return sh
}

var vpC28Kinds = []string{"mint", "pledge", "cancel", "accept", "remove", "custodian", "slash"}

// vpC28MakeTx builds a consensus-class transaction (never spent or validated:
// WriteConsensusSnapshot only looks at its class, hash and references).
func vpC28MakeTx(serial int, kind string, refs []crypto.Hash) *common.VersionedTransaction {
	tx := common.NewTransactionV5(common.XINAssetId)
	out := &common.Output{Type: common.OutputTypeScript, Amount: common.NewInteger(1)}
	switch kind {
	case "mint":
		tx.AddUniversalMintInput(uint64(serial), common.NewInteger(1))
	default:
		tx.AddInput(crypto.Blake3Hash([]byte(fmt.Sprintf("vpC28-in-%d", serial))), 0)
	}
	switch kind {
	case "pledge":
		out.Type = common.OutputTypeNodePledge
	case "cancel":
		out.Type = common.OutputTypeNodeCancel
	case "accept":
		out.Type = common.OutputTypeNodeAccept
	case "remove":
		out.Type = common.OutputTypeNodeRemove
	case "custodian":
		out.Type = common.OutputTypeCustodianUpdateNodes
	case "slash":
		out.Type = common.OutputTypeCustodianSlashNodes
	}
	tx.Outputs = []*common.Output{out}
	tx.References = refs
	tx.Extra = []byte(fmt.Sprintf("vpC28 %d", serial))
	return tx.AsVersioned()
}

// vpC28StoreSnapshot makes snap a stored, finalized snapshot at the next
// topology position. public=true goes through writeTransaction+WriteSnapshot
// (only possible for classes without storage side effects); otherwise only the
// SNAPSHOT/TOPOLOGY/SNAPTOPO records are written, which is all that
// readLastConsensusSnapshot reads.
func vpC28StoreSnapshot(t *rapid.T, s *BadgerStore, snap *common.Snapshot, topo uint64, txs []*common.VersionedTransaction, public bool) {
	st := &common.SnapshotWithTopologicalOrder{Snapshot: snap, TopologicalOrder: topo}
	if public {
		err := s.snapshotsDB.Update(func(txn *badger.Txn) error {
			for _, tx := range txs {
				if err := writeTransaction(txn, tx); err != nil {
					return err
				}
			}
			return nil
		})
		if err == nil {
			err = s.WriteSnapshot(st, []crypto.Hash{snap.NodeId})
		}
		if err != nil {
			t.Fatalf("storing snapshot through WriteSnapshot: %v", err)
		}
		return
	}
	err := s.snapshotsDB.Update(func(txn *badger.Txn) error {
		key := graphSnapshotKey(snap.NodeId, snap.RoundNumber, snap.PayloadHash())
		if err := txn.Set(key, st.VersionedMarshal()); err != nil {
			return err
		}
		return writeTopology(txn, st)
	})
	if err != nil {
		t.Fatalf("storing snapshot: %v", err)
	}
}

func TestVP_C28_chain_history(t *testing.T) {
	c := kit.New(t, "C28", "part (c), rapid T.Repeat on a genesis-loaded store (the genesis custodian snapshot is the first consensus record; reset per case): every step stores a fresh snapshot on one of the 7 genesis chains and calls WriteConsensusSnapshot with it; valid steps = consensus-class transaction (mint, pledge, cancel, accept, remove, custodian update, slash) whose first reference is the last recorded operation and whose snapshot is strictly later; invalid steps = wrong/older/missing first reference (also with the right hash in second place), timestamp equal or earlier, two-transaction snapshot, snapshot naming another transaction, non-consensus class, non-nil hack with an existing chain, an older recorded operation again; replays of the last operation (same snapshot, or the same transaction in another snapshot). An invalid call must panic/err and leave the key/value dump unchanged; after every call the CONSENSUSSNAPSHOT records read in key order must be one chain (strictly increasing timestamps, value = next record's transaction, last value empty, single-transaction snapshots, each operation's first reference = previous operation) and equal the list of valid operations; non-trivial = >=3 chained operations and >=1 rejected; distinct by op trace")
	c.Require("chain>=3", "rejected", "replay-same", "replay-other-snapshot", "invalid:reference", "invalid:second-reference-only", "invalid:timestamp-equal", "invalid:timestamp-earlier", "invalid:two-transactions", "invalid:class", "invalid:hack", "invalid:old-operation", "public-path")
	c.Assume("the snapshot passed to WriteConsensusSnapshot is already finalized in the store (kernel: reloadConsensusState runs after WriteSnapshot)", "invalid input is answered by the documented assertion panics; they are recovered and only required to leave the database unchanged")
	kit.SetChecks(kit.N(150, 3600))
	kit.SetSteps(20)
	sh := vpC28Open(t)
	serial := 0
	rapid.Check(t, func(t *rapid.T) {
		vpSWipe(t, sh.s)
		if err := sh.s.LoadGenesis(sh.rounds, sh.snaps, sh.txs); err != nil {
			t.Fatalf("LoadGenesis: %v", err)
		}
		known := map[crypto.Hash]*common.VersionedTransaction{}
		for _, tx := range sh.txs {
			known[tx.PayloadHash()] = tx
		}
		g := len(sh.snaps) - 1
		model := []vpC28Op{{Snap: sh.snaps[g].Snapshot, Tx: sh.txs[g]}}
		topo := uint64(len(sh.snaps))
		refsOf := map[crypto.Hash]*common.RoundLink{}
		for _, n := range sh.nodes {
			r, err := sh.s.ReadRound(n)
			if err != nil || r == nil {
				t.Fatalf("ReadRound: %v", err)
			}
			refsOf[n] = r.References
		}
		vpC28CheckChain(t, sh.s, known, model, "after genesis")
		var trace []string
		cls := map[string]bool{}
		rejected := 0
		newSnap := func(node crypto.Hash, ts uint64, hs ...crypto.Hash) *common.Snapshot {
			s := &common.Snapshot{Version: common.SnapshotVersionCommonEncoding, NodeId: node, RoundNumber: 1, References: refsOf[node], Timestamp: ts}
			for _, h := range hs {
				s.AddTransaction(h)
			}
			s.Hash = s.PayloadHash()
			return s
		}
		expectRejected := func(what string, snap *common.Snapshot, tx *common.VersionedTransaction, hack *common.Snapshot) {
			before := vpSDump(sh.s)
			var err error
			p := vpSCatch(func() { err = sh.s.WriteConsensusSnapshot(snap, tx, hack) })
			if vpSDump(sh.s) != before {
				t.Fatalf("%s: the call (panic=%q err=%v) changed the database", what, p, err)
			}
			if p == "" && err == nil {
				// accepted without a trace: tolerated only if the chain is still the model's
				cls["invalid-ignored-silently"] = true
			}
			rejected++
			cls["rejected"] = true
			cls["invalid:"+what] = true
			trace = append(trace, "!"+what)
		}
		t.Repeat(map[string]func(*rapid.T){
			"valid": func(t *rapid.T) {
				serial++
				last := model[len(model)-1]
				kind := rapid.SampledFrom(vpC28Kinds).Draw(t, "class")
				refs := []crypto.Hash{last.Tx.PayloadHash()}
				if rapid.IntRange(0, 3).Draw(t, "extra_ref") == 0 {
					refs = append(refs, crypto.Blake3Hash([]byte(fmt.Sprintf("vpC28-otherref-%d", serial))))
				}
				tx := vpC28MakeTx(serial, kind, refs)
				known[tx.PayloadHash()] = tx
				ts := last.Snap.Timestamp + rapid.SampledFrom([]uint64{1, 1, 2, 1000, 3000000000, 86400000000000}).Draw(t, "dt")
				node := sh.nodes[rapid.IntRange(0, 6).Draw(t, "chain")]
				snap := newSnap(node, ts, tx.PayloadHash())
				public := kind == "slash" && rapid.Bool().Draw(t, "public")
				vpC28StoreSnapshot(t, sh.s, snap, topo, []*common.VersionedTransaction{tx}, public)
				topo++
				if public {
					cls["public-path"] = true
				}
				if err := sh.s.WriteConsensusSnapshot(snap, tx, nil); err != nil {
					t.Fatalf("valid consensus operation %s rejected: %v", kind, err)
				}
				model = append(model, vpC28Op{Snap: snap, Tx: tx})
				cls["class:"+kind] = true
				trace = append(trace, kind)
			},
			"replay": func(t *rapid.T) {
				last := model[len(model)-1]
				if len(model) == 1 {
					return // the genesis record is written by LoadGenesis only
				}
				snap := last.Snap
				what := "replay-same"
				if rapid.Bool().Draw(t, "other_snapshot") {
					// the same operation finalized again on another chain, later
					serial++
					node := sh.nodes[rapid.IntRange(0, 6).Draw(t, "chain")]
					snap = newSnap(node, last.Snap.Timestamp+uint64(rapid.IntRange(0, 5).Draw(t, "dt")), last.Tx.PayloadHash())
					if snap.PayloadHash() == last.Snap.PayloadHash() {
						return
					}
					vpC28StoreSnapshot(t, sh.s, snap, topo, nil, false)
					topo++
					what = "replay-other-snapshot"
				}
				before := vpSDump(sh.s)
				var err error
				p := vpSCatch(func() { err = sh.s.WriteConsensusSnapshot(snap, last.Tx, nil) })
				if vpSDump(sh.s) != before {
					t.Fatalf("%s of the last operation changed the database (panic=%q err=%v)", what, p, err)
				}
				cls[what] = true
				trace = append(trace, what)
			},
			"invalid": func(t *rapid.T) {
				serial++
				last := model[len(model)-1]
				node := sh.nodes[rapid.IntRange(0, 6).Draw(t, "chain")]
				kind := rapid.SampledFrom(vpC28Kinds).Draw(t, "class")
				good := []crypto.Hash{last.Tx.PayloadHash()}
				later := last.Snap.Timestamp + uint64(rapid.IntRange(1, 1000).Draw(t, "dt"))
				what := rapid.SampledFrom([]string{"reference", "second-reference-only", "timestamp-equal", "timestamp-earlier", "two-transactions", "other-transaction", "class", "hack", "old-operation", "no-reference"}).Draw(t, "what")
				switch what {
				case "reference":
					ref := crypto.Blake3Hash([]byte(fmt.Sprintf("vpC28-badref-%d", serial)))
					if len(model) >= 2 && rapid.Bool().Draw(t, "older") {
						ref = model[rapid.IntRange(0, len(model)-2).Draw(t, "older_idx")].Tx.PayloadHash()
					}
					tx := vpC28MakeTx(serial, kind, []crypto.Hash{ref})
					known[tx.PayloadHash()] = tx
					snap := newSnap(node, later, tx.PayloadHash())
					vpC28StoreSnapshot(t, sh.s, snap, topo, nil, false)
					topo++
					expectRejected(what, snap, tx, nil)
				case "second-reference-only":
					tx := vpC28MakeTx(serial, kind, []crypto.Hash{crypto.Blake3Hash([]byte(fmt.Sprintf("vpC28-badref-%d", serial))), good[0]})
					known[tx.PayloadHash()] = tx
					snap := newSnap(node, later, tx.PayloadHash())
					vpC28StoreSnapshot(t, sh.s, snap, topo, nil, false)
					topo++
					expectRejected(what, snap, tx, nil)
				case "no-reference":
					tx := vpC28MakeTx(serial, kind, nil)
					known[tx.PayloadHash()] = tx
					snap := newSnap(node, later, tx.PayloadHash())
					vpC28StoreSnapshot(t, sh.s, snap, topo, nil, false)
					topo++
					expectRejected(what, snap, tx, nil)
				case "timestamp-equal", "timestamp-earlier":
					ts := last.Snap.Timestamp
					if what == "timestamp-earlier" {
						ts -= uint64(rapid.IntRange(1, 1000).Draw(t, "back"))
					}
					tx := vpC28MakeTx(serial, kind, good)
					known[tx.PayloadHash()] = tx
					snap := newSnap(node, ts, tx.PayloadHash())
					vpC28StoreSnapshot(t, sh.s, snap, topo, nil, false)
					topo++
					expectRejected(what, snap, tx, nil)
				case "two-transactions":
					tx := vpC28MakeTx(serial, kind, good)
					other := vpC28MakeTx(serial+1000000, "slash", good)
					known[tx.PayloadHash()], known[other.PayloadHash()] = tx, other
					snap := newSnap(node, later, tx.PayloadHash(), other.PayloadHash())
					vpC28StoreSnapshot(t, sh.s, snap, topo, nil, false)
					topo++
					expectRejected(what, snap, tx, nil)
				case "other-transaction":
					tx := vpC28MakeTx(serial, kind, good)
					other := vpC28MakeTx(serial+1000000, kind, good)
					known[tx.PayloadHash()], known[other.PayloadHash()] = tx, other
					snap := newSnap(node, later, other.PayloadHash())
					vpC28StoreSnapshot(t, sh.s, snap, topo, nil, false)
					topo++
					expectRejected(what, snap, tx, nil)
				case "class":
					tx := vpC28MakeTx(serial, "script", good)
					known[tx.PayloadHash()] = tx
					snap := newSnap(node, later, tx.PayloadHash())
					vpC28StoreSnapshot(t, sh.s, snap, topo, nil, false)
					topo++
					expectRejected(what, snap, tx, nil)
				case "hack":
					tx := vpC28MakeTx(serial, kind, good)
					known[tx.PayloadHash()] = tx
					snap := newSnap(node, later, tx.PayloadHash())
					vpC28StoreSnapshot(t, sh.s, snap, topo, nil, false)
					topo++
					expectRejected(what, snap, tx, last.Snap)
				case "old-operation":
					if len(model) < 3 {
						return
					}
					old := model[rapid.IntRange(1, len(model)-2).Draw(t, "old_idx")]
					expectRejected(what, old.Snap, old.Tx, nil)
				}
			},
			"": func(t *rapid.T) {
				vpC28CheckChain(t, sh.s, known, model, "after "+strings.Join(trace, " "))
			},
		})
		if len(model) >= 4 {
			cls["chain>=3"] = true
		}
		names := []string{}
		for k := range cls {
			names = append(names, k)
		}
		sort.Strings(names)
		c.Case(strings.Join(trace, " "), len(model) >= 4 && rejected >= 1, names...)
		c.Sample(strings.Join(trace, " "))
	})
}
