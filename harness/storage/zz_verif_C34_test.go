//go:build verif

package storage

import (
	"bytes"
	"fmt"
	"testing"

	"pgregory.net/rapid"
	kit "verifkit"
)

// A custodian update is priced and approved against "the current custodian":
// the state the store reports for the update's time. This unit checks that the
// state is what the ledger says it is: after every finalized update, the store
// reports exactly that update (account, entries, transaction) for every later
// time, whatever the previous update was - another account, the same account
// with other entries, or the same account with the same entries.
func TestVP_C34_store_state(t *testing.T) {
	c := kit.New(t, "C34", "rapid: histories of 2..7 custodian updates (7..11 signed node entries drawn from a pool, custodian account drawn from 3 so that consecutive updates often keep the account; entry sets kept, shrunk or grown) finalized through writeTransaction+writeUTXO at increasing times (steps 1 ns .. 3 d); oracle: after every update ReadCustodian(ts+1), ReadCustodian(ts+step) and the uncached lookup report exactly the update just finalized (transaction, time, account, raw entries in order), which is the state the next update's approval and price are judged against; non-trivial = an update that keeps the previous account; distinct by (history, position)")
	c.Require("same-account-later", "same-account-changed-entries", "same-account-same-entries", "other-account")
	kit.SetChecks(kit.N(150, 6000))
	rapid.Check(t, func(rt *rapid.T) {
		s := vpC11OpenStore()
		defer vpC11CloseStore(s)
		last := vpC11Epoch
		var prev *vpC11Update
		n := rapid.IntRange(2, 7).Draw(rt, "updates")
		var trace []string
		for k := 0; k < n; k++ {
			step := rapid.SampledFrom([]uint64{1, 2, 30000000000, 43200000000000, 86400000000000 * 3}).Draw(rt, "step")
			ts := last + step
			var u *vpC11Update
			for try := 0; try < 40; try++ {
				u = vpC11BuildUpdate(rt, 1+k+100*try, false)
				// account among three; a fresh transaction every time
				if bytes.Compare(u.custodian.PublicSpendKey[:], vpC34Accounts()[2][:]) <= 0 && (prev == nil || u.hash != prev.hash) {
					break
				}
			}
			if bytes.Compare(u.custodian.PublicSpendKey[:], vpC34Accounts()[2][:]) > 0 {
				rt.Skip("no account among the three drawn")
			}
			if err := vpC11WriteUpdate(s, u, ts, false); err != nil {
				rt.Fatalf("finalizing update %d at %d: %v\nhistory %v", k, ts, err, trace)
			}
			classes := []string{}
			nt := false
			if prev != nil {
				if prev.custodian.String() == u.custodian.String() {
					nt = true
					classes = append(classes, "same-account-later")
					if len(prev.nodes) == len(u.nodes) && bytes.Equal(bytes.Join(prev.nodes, nil), bytes.Join(u.nodes, nil)) {
						classes = append(classes, "same-account-same-entries")
					} else {
						classes = append(classes, "same-account-changed-entries")
					}
				} else {
					classes = append(classes, "other-account")
				}
			}
			trace = append(trace, fmt.Sprintf("%x/%d@+%d", u.custodian.PublicSpendKey[:2], len(u.nodes), ts-vpC11Epoch))
			for _, q := range []uint64{ts + 1, ts + step, ts + 86400000000000*30} {
				r, err := s.ReadCustodian(q)
				if err != nil || r == nil {
					rt.Fatalf("ReadCustodian(%d) after the update at %d: %v %v\nhistory %v", q, ts, r, err, trace)
				}
				if r.Transaction != u.hash || r.Timestamp != ts || r.Custodian.String() != u.custodian.String() || len(r.Nodes) != len(u.nodes) {
					rt.Fatalf("the current custodian state at %d is update %s of %d (account %s, %d entries), but the last finalized update is %s of %d (account %s, %d entries)\nhistory %v",
						q, r.Transaction, r.Timestamp, r.Custodian, len(r.Nodes), u.hash, ts, u.custodian.String(), len(u.nodes), trace)
				}
				for i, nd := range r.Nodes {
					if !bytes.Equal(nd.Extra, u.nodes[i]) {
						rt.Fatalf("entry %d of the current custodian state at %d differs from the finalized update", i, q)
					}
				}
				if un := vpC11Uncached(s, q); un != vpC11RenderCustodian(r, err) {
					rt.Fatalf("cached and uncached custodian state at %d differ", q)
				}
			}
			c.Case(fmt.Sprint(trace), nt, classes...)
			prev, last = u, ts
		}
		c.Sample(trace)
	})
}

// vpC34Accounts: the custodian accounts of the C11 pool in key order; the unit
// keeps to the three smallest so that consecutive updates often share one.
func vpC34Accounts() [][32]byte {
	var ks [][32]byte
	for i := 0; i < 6; i++ {
		a, _ := vpC11Addr("custodian", i)
		ks = append(ks, a.PublicSpendKey)
	}
	for i := range ks {
		for j := i + 1; j < len(ks); j++ {
			if bytes.Compare(ks[j][:], ks[i][:]) < 0 {
				ks[i], ks[j] = ks[j], ks[i]
			}
		}
	}
	return ks
}
