//go:build verif

package crypto

import (
	"encoding/hex"
	"fmt"
	"strings"
	"testing"

	"filippo.io/edwards25519"
	"pgregory.net/rapid"
	kit "verifkit"
)

// Non-canonical encodings the library decoder accepts (y >= p, or x = 0 with the sign bit).
var vpC02NonCanonical = []string{
	"0100000000000000000000000000000000000000000000000000000000000080", // identity, sign bit set
	"eeffffffffffffffffffffffffffffffffffffffffffffffffffffffffffff7f", // y = p+1 (= identity's y)
	"eeffffffffffffffffffffffffffffffffffffffffffffffffffffffffffffff",
	"edffffffffffffffffffffffffffffffffffffffffffffffffffffffffffff7f", // y = p (= 0)
	"ecffffffffffffffffffffffffffffffffffffffffffffffffffffffffffffff", // order 2, sign bit set
}

func vpC02KeyHex(s string) Key {
	var k Key
	b, err := hex.DecodeString(s)
	if err != nil || len(b) != 32 {
		panic("bad constant " + s)
	}
	copy(k[:], b)
	return k
}

// vpC02Torsion returns a point of small order (index 1..7 of the table: order 2, 4, 4, 8, 8, 8, 8).
func vpC02Torsion(i int) *edwards25519.Point {
	k := vpSmallOrderKey(1 + i%7)
	p, err := vpRefPoint(k[:])
	if err != nil {
		panic(err)
	}
	return p
}

type vpC02Entry struct {
	key  *Key
	sig  *Signature
	kind string
}

// vpC02Sign makes the Schnorr signature (R = r*B [+ torsion], s = r + H(R,A,m)*a)
// for an arbitrary claimed public key encoding A.
func vpC02SignRaw(a, r Key, A []byte, msg Hash, addToR *edwards25519.Point) Signature {
	rs, _ := vpRefScalar(r[:])
	as, _ := vpRefScalar(a[:])
	R := edwards25519.NewIdentityPoint().ScalarBaseMult(rs)
	if addToR != nil {
		R.Add(R, addToR)
	}
	c := vpRefChallenge(R.Bytes(), A, msg[:])
	s := edwards25519.NewScalar().MultiplyAdd(c, as, rs)
	var sig Signature
	copy(sig[:32], R.Bytes())
	copy(sig[32:], s.Bytes())
	return sig
}

var vpC02Kinds = []string{"bad-R-random", "bad-R-bitflip", "s-plus-l", "s-bitflip", "s-all-ff", "R-small-order", "R-identity", "R-torsion-added",
	"key-small-order", "key-identity", "key-torsion-added", "R-noncanonical", "key-noncanonical", "other-message", "other-key", "swapped-pair",
	"nil-key", "nil-sig", "zero-sig", "compensating-pair"}

func vpC02Corrupt(t *rapid.T, base []byte, msg Hash, es []vpC02Entry, privs []Key, at int, kind string) {
	e := &es[at]
	sig := *e.sig
	key := *e.key
	tag := rapid.IntRange(0, 1<<20).Draw(t, "tag")
	switch kind {
	case "bad-R-random":
		R := vpKeyFromTag(base, "bad-R", tag).Public()
		copy(sig[:32], R[:])
	case "bad-R-bitflip":
		b := rapid.IntRange(0, 255).Draw(t, "bit")
		sig[b/8] ^= 1 << uint(b%8)
	case "s-plus-l":
		s := vpAddL(sig[32:])
		copy(sig[32:], s[:])
	case "s-bitflip":
		b := rapid.IntRange(0, 255).Draw(t, "bit")
		sig[32+b/8] ^= 1 << uint(b%8)
	case "s-all-ff":
		for i := 32; i < 64; i++ {
			sig[i] = 0xff
		}
	case "R-small-order":
		R := vpSmallOrderKey(1 + tag%7)
		copy(sig[:32], R[:])
	case "R-identity":
		R := vpSmallOrderKey(0)
		copy(sig[:32], R[:])
		// with R = identity and s = 0 the equation holds for the identity key only; try the cheapest forgery s = c*a
		as, _ := vpRefScalar(privs[at][:])
		c := vpRefChallenge(sig[:32], key[:], msg[:])
		copy(sig[32:], edwards25519.NewScalar().Multiply(c, as).Bytes())
	case "R-torsion-added":
		// R' = r*B + T, s = r + H(R',A,m)*a: passes only a cofactored equation
		sig = vpC02SignRaw(privs[at], vpKeyFromTag(base, "torsion-nonce", tag), key[:], msg, vpC02Torsion(tag))
	case "key-small-order":
		key = vpSmallOrderKey(1 + tag%7)
		// s*B = R + c*T holds after multiplying by the cofactor for s = r
		sig = vpC02SignRaw(Key{}, vpKeyFromTag(base, "torsion-nonce", tag), key[:], msg, nil)
	case "key-identity":
		key = vpSmallOrderKey(0)
		sig = vpC02SignRaw(Key{}, vpKeyFromTag(base, "torsion-nonce", tag), key[:], msg, nil)
	case "key-torsion-added":
		P, _ := vpRefPoint(key[:])
		copy(key[:], edwards25519.NewIdentityPoint().Add(P, vpC02Torsion(tag)).Bytes())
		sig = vpC02SignRaw(privs[at], vpKeyFromTag(base, "torsion-nonce", tag), key[:], msg, nil)
	case "R-noncanonical":
		R := vpC02KeyHex(vpC02NonCanonical[tag%len(vpC02NonCanonical)])
		copy(sig[:32], R[:])
	case "key-noncanonical":
		key = vpC02KeyHex(vpC02NonCanonical[tag%len(vpC02NonCanonical)])
		sig = vpC02SignRaw(Key{}, vpKeyFromTag(base, "torsion-nonce", tag), key[:], msg, nil)
	case "other-message":
		sig = privs[at].Sign(vpHashFromTag(base, "other-msg", tag))
	case "other-key":
		key = vpKeyFromTag(base, "other-key", tag).Public()
	case "swapped-pair":
		if len(es) >= 2 {
			o := (at + 1 + tag%(len(es)-1)) % len(es)
			if es[o].sig != nil && es[o].key != nil {
				es[at].sig, es[o].sig = es[o].sig, es[at].sig
				es[at].kind, es[o].kind = kind, kind
				return
			}
		}
		sig[0] ^= 1
	case "compensating-pair":
		// s_i + d and s_j - d: the plain sum of the verification equations still
		// holds, only independent random weights per entry expose it
		if len(es) >= 2 {
			o := (at + 1 + tag%(len(es)-1)) % len(es)
			if es[o].sig != nil && es[o].key != nil {
				d, _ := vpRefScalar(func() []byte { k := vpKeyFromTag(base, "delta", tag); return k[:] }())
				si, e1 := vpRefScalar(es[at].sig[32:])
				sj, e2 := vpRefScalar(es[o].sig[32:])
				if e1 == nil && e2 == nil {
					a, b := *es[at].sig, *es[o].sig
					copy(a[32:], edwards25519.NewScalar().Add(si, d).Bytes())
					copy(b[32:], edwards25519.NewScalar().Subtract(sj, d).Bytes())
					es[at].sig, es[o].sig = &a, &b
					es[at].kind, es[o].kind = kind, kind
					return
				}
			}
		}
		sig[40] ^= 1
	case "nil-key":
		e.key, e.kind = nil, kind
		return
	case "nil-sig":
		e.sig, e.kind = nil, kind
		return
	case "zero-sig":
		sig = Signature{}
	}
	e.key, e.sig, e.kind = &key, &sig, kind
}

// vpC02Each is the statement's right-hand side: every signature checked on its
// own; an entry that has no key or no signature cannot pass.
func vpC02Each(msg Hash, keys []*Key, sigs []*Signature) (bool, int) {
	all, bad := true, 0
	n := len(keys)
	if len(sigs) > n {
		n = len(sigs)
	}
	for i := 0; i < n; i++ {
		ok := i < len(keys) && i < len(sigs) && keys[i] != nil && sigs[i] != nil && keys[i].Verify(msg, *sigs[i])
		if !ok {
			all = false
			bad++
		}
	}
	return all, bad
}

func TestVP_C02_batch_agree(t *testing.T) {
	col := kit.New(t, "C02", "rapid (package crypto): 1..64 (key, signature) entries over one message, honest signatures from seed-derived keys (one in six vectors reuses keys), then 0..3 entries corrupted (wrong/bit-flipped R, s+l, s bit flip, small-order / identity / torsion-shifted / non-canonical R or key with the matching cofactor-only forgery, other message, other key, swapped pair, compensating pair s_i+d / s_j-d, nil key, nil signature, zero signature) at first/last/random positions, or the two slices given different lengths; oracle: BatchVerify == AND of Key.Verify per entry (missing entry counts as failing); non-trivial = >=2 entries; distinct by seed+layout")
	col.Require("all-valid", "some-invalid", "entries>=2", "entries=64", "entries=1", "corrupt-first", "corrupt-last", "length-mismatch", "dup-keys")
	for _, k := range vpC02Kinds {
		col.Require("kind-" + k)
	}
	kit.SetChecks(kit.N(1500, 20000))
	rapid.Check(t, func(t *rapid.T) {
		base := vpSeed(t, 16, "seed")
		hv := vpHashFromTag(base, "shape", 0)
		var n int
		switch rapid.IntRange(0, 3).Draw(t, "n_kind") {
		case 0:
			n = rapid.IntRange(1, 64).Draw(t, "n")
		case 1:
			n = rapid.SampledFrom([]int{1, 2, 3, 63, 64}).Draw(t, "n_boundary")
		default:
			n = 2 + int(hv[0])%63
		}
		msg := vpHashFromTag(base, "msg", 0)
		dups := rapid.IntRange(0, 5).Draw(t, "dups") == 0
		pool := n
		if dups {
			pool = (n + 1) / 2
		}
		privs := make([]Key, n)
		es := make([]vpC02Entry, n)
		for i := range es {
			j := i
			if dups {
				j = int(vpHashFromTag(base, "pick", i)[0]) % pool
			}
			privs[i] = vpKeyFromTag(base, "key", j)
			pub := privs[i].Public()
			sig := privs[i].Sign(msg)
			if !pub.Verify(msg, sig) {
				t.Fatalf("an honest signature does not verify on its own (key %x)", pub[:8])
			}
			es[i] = vpC02Entry{key: &pub, sig: &sig, kind: "honest"}
		}
		classes := []string{}
		if dups {
			classes = append(classes, "dup-keys")
		}
		nc := rapid.SampledFrom([]int{0, 0, 1, 1, 1, 2, 3}).Draw(t, "corruptions")
		for c := 0; c < nc; c++ {
			var at int
			switch rapid.IntRange(0, 3).Draw(t, "at_kind") {
			case 0:
				at = 0
			case 1:
				at = n - 1
			default:
				at = rapid.IntRange(0, n-1).Draw(t, "at")
			}
			if es[at].kind != "honest" {
				continue
			}
			kind := rapid.SampledFrom(vpC02Kinds).Draw(t, "kind")
			vpC02Corrupt(t, base, msg, es, privs, at, kind)
			classes = append(classes, "kind-"+kind)
			if at == 0 {
				classes = append(classes, "corrupt-first")
			}
			if at == n-1 {
				classes = append(classes, "corrupt-last")
			}
		}
		keys := make([]*Key, n)
		sigs := make([]*Signature, n)
		layout := make([]string, n)
		for i, e := range es {
			keys[i], sigs[i], layout[i] = e.key, e.sig, e.kind
		}
		if rapid.IntRange(0, 14).Draw(t, "mismatch") == 0 {
			cut := rapid.IntRange(0, n-1).Draw(t, "cut")
			if rapid.Bool().Draw(t, "cut_keys") {
				keys = keys[:cut]
			} else {
				sigs = sigs[:cut]
			}
			classes = append(classes, "length-mismatch")
			layout = append(layout, fmt.Sprintf("cut%d/%d", len(keys), len(sigs)))
		}

		want, bad := vpC02Each(msg, keys, sigs)
		var got bool
		if p := vpCatch(func() { got = BatchVerify(msg, keys, sigs) }); p != nil {
			t.Fatalf("BatchVerify panicked on %d keys / %d signatures (%s): %v", len(keys), len(sigs), strings.Join(layout, ","), p)
		}
		if got != want {
			t.Fatalf("BatchVerify = %v but checking each signature on its own gives %v (%d failing of %d; layout %s)", got, want, bad, n, strings.Join(layout, ","))
		}
		// the verdict does not depend on the random batch coefficients
		if n >= 2 {
			if again := BatchVerify(msg, keys, sigs); again != got {
				t.Fatalf("BatchVerify is not stable: %v then %v (layout %s)", got, again, strings.Join(layout, ","))
			}
		}
		if want {
			classes = append(classes, "all-valid")
		} else {
			classes = append(classes, "some-invalid")
		}
		if n >= 2 {
			classes = append(classes, "entries>=2")
		}
		if n == 64 {
			classes = append(classes, "entries=64")
		}
		if n == 1 {
			classes = append(classes, "entries=1")
		}
		col.Case(fmt.Sprintf("%x|%d|%s", base, n, strings.Join(layout, ",")), n >= 2, classes...)
		col.Sample(map[string]any{"entries": n, "failing": bad, "batch": got})
	})
}

// TestVP_C02_batch_sweep puts each corruption kind at each position of small
// vectors, one at a time (deterministic).
func TestVP_C02_batch_sweep(t *testing.T) {
	col := kit.New(t, "C02", "deterministic sweep via rapid with fixed structure: vectors of 2, 3 and 5 entries, every corruption kind at every position, singly; same oracle; non-trivial = all; distinct by kind+position+size")
	kit.SetChecks(1)
	base := []byte(fmt.Sprintf("c02-sweep-%d", kit.Seed()))
	msg := vpHashFromTag(base, "msg", 0)
	rapid.Check(t, func(t *rapid.T) {
		for _, n := range []int{2, 3, 5} {
			for _, kind := range vpC02Kinds {
				for at := 0; at < n; at++ {
					privs := make([]Key, n)
					es := make([]vpC02Entry, n)
					for i := range es {
						privs[i] = vpKeyFromTag(base, "key", i)
						pub := privs[i].Public()
						sig := privs[i].Sign(msg)
						es[i] = vpC02Entry{key: &pub, sig: &sig, kind: "honest"}
					}
					vpC02Corrupt(t, base, msg, es, privs, at, kind)
					keys := make([]*Key, n)
					sigs := make([]*Signature, n)
					for i, e := range es {
						keys[i], sigs[i] = e.key, e.sig
					}
					want, _ := vpC02Each(msg, keys, sigs)
					var got bool
					if p := vpCatch(func() { got = BatchVerify(msg, keys, sigs) }); p != nil {
						t.Fatalf("BatchVerify panicked (%s at %d of %d): %v", kind, at, n, p)
					}
					if got != want {
						t.Fatalf("BatchVerify = %v, each on its own = %v (%s at %d of %d)", got, want, kind, at, n)
					}
					if want {
						t.Fatalf("harness: corruption %s at %d of %d left every signature valid", kind, at, n)
					}
					col.Case(fmt.Sprintf("%s|%d|%d", kind, at, n), true, "kind-"+kind)
				}
			}
		}
	})
	col.Exhaustive("every corruption kind x every position for vectors of 2, 3 and 5 entries")
}
