//go:build verif

package crypto

import (
	"crypto/sha512"
	"encoding/binary"
	"encoding/hex"
	"fmt"

	"filippo.io/edwards25519"
	"pgregory.net/rapid"
)

// vpCatch runs f and returns the recovered panic value (nil when f returned).
func vpCatch(f func()) (p any) {
	defer func() {
		if r := recover(); r != nil {
			p = fmt.Sprint(r)
			if p == "" {
				p = "panic"
			}
		}
	}()
	f()
	return nil
}

// vpKeyFromSeed derives a private key (canonical scalar) from arbitrary seed
// bytes; the seed is stretched with SHA-512 so any length is accepted.
func vpKeyFromSeed(seed []byte) Key {
	d := sha512.Sum512(seed)
	return NewKeyFromSeed(d[:])
}

// vpKeyFromTag derives a private key from a drawn base seed plus a domain tag
// and an index, so that many independent keys come from one rapid draw.
func vpKeyFromTag(base []byte, tag string, i int) Key {
	buf := append([]byte{}, base...)
	buf = append(buf, tag...)
	buf = binary.BigEndian.AppendUint32(buf, uint32(i))
	return vpKeyFromSeed(buf)
}

// vpSeed draws n seed bytes.
func vpSeed(t *rapid.T, n int, label string) []byte {
	return rapid.SliceOfN(rapid.Byte(), n, n).Draw(t, label)
}

// vpHashFromTag derives a 32-byte message hash from seed material.
func vpHashFromTag(base []byte, tag string, i int) Hash {
	buf := append([]byte{}, base...)
	buf = append(buf, tag...)
	buf = binary.BigEndian.AppendUint32(buf, uint32(i))
	d := sha512.Sum512(buf)
	var h Hash
	copy(h[:], d[:32])
	return h
}

// vpKeyPtrs returns pointers to copies of the keys.
func vpKeyPtrs(keys []Key) []*Key {
	out := make([]*Key, len(keys))
	for i := range keys {
		k := keys[i]
		out[i] = &k
	}
	return out
}

func vpHex(b []byte) string { return hex.EncodeToString(b) }

// ---- independent Ed25519 arithmetic on filippo.io/edwards25519 ----

// vpRefPoint decodes a point with the library only (no subgroup or cache logic
// of the package under test).
func vpRefPoint(b []byte) (*edwards25519.Point, error) {
	return edwards25519.NewIdentityPoint().SetBytes(b)
}

func vpRefScalar(b []byte) (*edwards25519.Scalar, error) {
	return edwards25519.NewScalar().SetCanonicalBytes(b)
}

// vpRefChallenge is SHA-512(R || A || m) reduced mod l.
func vpRefChallenge(R, A, m []byte) *edwards25519.Scalar {
	h := sha512.New()
	h.Write(R)
	h.Write(A)
	h.Write(m)
	var d [64]byte
	h.Sum(d[:0])
	s, err := edwards25519.NewScalar().SetUniformBytes(d[:])
	if err != nil {
		panic(err)
	}
	return s
}

// vpRefSchnorrVerify checks s*B == R + H(R||A||m)*A with library arithmetic
// only. It reports false when R, A or s do not decode.
func vpRefSchnorrVerify(A []byte, m []byte, sig []byte) bool {
	if len(sig) != 64 {
		return false
	}
	Rp, err := vpRefPoint(sig[:32])
	if err != nil {
		return false
	}
	Ap, err := vpRefPoint(A)
	if err != nil {
		return false
	}
	s, err := vpRefScalar(sig[32:])
	if err != nil {
		return false
	}
	c := vpRefChallenge(sig[:32], A, m)
	left := edwards25519.NewIdentityPoint().ScalarBaseMult(s)
	right := edwards25519.NewIdentityPoint().ScalarMult(c, Ap)
	right.Add(right, Rp)
	return left.Equal(right) == 1
}

// vpRefSum adds the points encoded by keys[i] for i in idx.
func vpRefSum(keys []*Key, idx []int) (*edwards25519.Point, error) {
	P := edwards25519.NewIdentityPoint()
	for _, i := range idx {
		if i < 0 || i >= len(keys) || keys[i] == nil {
			return nil, fmt.Errorf("index %d outside the vector", i)
		}
		p, err := vpRefPoint(keys[i][:])
		if err != nil {
			return nil, err
		}
		P.Add(P, p)
	}
	return P, nil
}

// vpMaskIndexes lists the set bits of a 64-bit mask in increasing order.
func vpMaskIndexes(mask uint64) []int {
	var out []int
	for i := 0; i < 64; i++ {
		if mask&(uint64(1)<<uint(i)) != 0 {
			out = append(out, i)
		}
	}
	return out
}

// vpOrderL is the little-endian encoding of the group order l.
var vpOrderL = [32]byte{0xed, 0xd3, 0xf5, 0x5c, 0x1a, 0x63, 0x12, 0x58, 0xd6, 0x9c, 0xf7, 0xa2, 0xde, 0xf9, 0xde, 0x14,
	0, 0, 0, 0, 0, 0, 0, 0, 0, 0, 0, 0, 0, 0, 0, 0x10}

// vpAddL returns the non-canonical encoding s + l of a canonical scalar s (it
// always fits 32 bytes because s < l < 2^253).
func vpAddL(s []byte) [32]byte {
	var out [32]byte
	carry := 0
	for i := 0; i < 32; i++ {
		v := int(s[i]) + int(vpOrderL[i]) + carry
		out[i] = byte(v)
		carry = v >> 8
	}
	return out
}

// vpSmallOrderPoints are canonical encodings of the eight points of small order.
var vpSmallOrderPoints = []string{
	"0100000000000000000000000000000000000000000000000000000000000000", // identity
	"ecffffffffffffffffffffffffffffffffffffffffffffffffffffffffffff7f", // order 2
	"0000000000000000000000000000000000000000000000000000000000000000", // order 4
	"0000000000000000000000000000000000000000000000000000000000000080", // order 4
	"26e8958fc2b227b045c3f489f2ef98f0d5dfac05d3c63339b13802886d53fc05", // order 8
	"26e8958fc2b227b045c3f489f2ef98f0d5dfac05d3c63339b13802886d53fc85", // order 8
	"c7176a703d4dd84fba3c0b760d10670f2a2053fa2c39ccc64ec7fd7792ac037a", // order 8
	"c7176a703d4dd84fba3c0b760d10670f2a2053fa2c39ccc64ec7fd7792ac03fa", // order 8
}

func vpSmallOrderKey(i int) Key {
	var k Key
	b, err := hex.DecodeString(vpSmallOrderPoints[i%len(vpSmallOrderPoints)])
	if err != nil {
		panic(err)
	}
	copy(k[:], b)
	return k
}
