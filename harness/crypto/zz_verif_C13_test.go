//go:build verif

package crypto

import (
	"bytes"
	"fmt"
	"testing"

	"filippo.io/edwards25519"
	"pgregory.net/rapid"
	kit "verifkit"
)

type vpC13Case struct {
	base    []byte
	n       int
	privs   []Key
	pubs    []Key
	publics []*Key
	mask    uint64
	idx     []int
	nonces  map[int]*Key // private nonces r_i
	commits map[int]*Key // R_i
	msg     Hash
}

func (c *vpC13Case) commitCopy() map[int]*Key {
	m := make(map[int]*Key, len(c.commits))
	for i, k := range c.commits {
		kk := *k
		m[i] = &kk
	}
	return m
}

func (c *vpC13Case) build(t *rapid.T) *CosiSignature {
	cosi, err := CosiAggregateCommitment(c.commitCopy())
	if err != nil {
		t.Fatalf("CosiAggregateCommitment of %d valid commitments (mask %x): %v", len(c.commits), c.mask, err)
	}
	if cosi.Mask != c.mask {
		t.Fatalf("aggregated mask %x, committed signers %x", cosi.Mask, c.mask)
	}
	return cosi
}

// vpC13RefVerify verifies (R,S) against the sum of the masked keys with library
// arithmetic only: S*B == R + H(R||A||m)*A.
func vpC13RefVerify(publics []*Key, mask uint64, msg Hash, sig Signature) bool {
	A, err := vpRefSum(publics, vpMaskIndexes(mask))
	if err != nil {
		return false
	}
	return vpRefSchnorrVerify(A.Bytes(), msg[:], sig[:])
}

// vpC13FullVerify runs FullVerify and, whenever it accepts, demands that the
// independent verification accepts as well.
func vpC13FullVerify(t *rapid.T, what string, cosi *CosiSignature, publics []*Key, threshold int, msg Hash) error {
	err := cosi.FullVerify(publics, threshold, msg)
	if err == nil && !vpC13RefVerify(publics, cosi.Mask, msg, cosi.Signature) {
		t.Fatalf("%s: FullVerify accepted a signature the independent point-sum verification rejects (mask %x)", what, cosi.Mask)
	}
	return err
}

func vpC13Gen(t *rapid.T) *vpC13Case {
	c := &vpC13Case{base: vpSeed(t, 16, "seed")}
	// the seed hash gives uniformly distributed sizes and masks even while rapid
	// still draws small values
	hv := vpHashFromTag(c.base, "shape", 0)
	u0 := uint64(hv[0]) | uint64(hv[1])<<8 | uint64(hv[2])<<16 | uint64(hv[3])<<24 | uint64(hv[4])<<32 | uint64(hv[5])<<40 | uint64(hv[6])<<48 | uint64(hv[7])<<56
	u1 := uint64(hv[8]) | uint64(hv[9])<<8 | uint64(hv[10])<<16 | uint64(hv[11])<<24 | uint64(hv[12])<<32 | uint64(hv[13])<<40 | uint64(hv[14])<<48 | uint64(hv[15])<<56
	switch rapid.IntRange(0, 3).Draw(t, "keys_kind") {
	case 0:
		c.n = rapid.IntRange(1, 64).Draw(t, "keys")
	case 1:
		c.n = rapid.SampledFrom([]int{1, 2, 3, 63, 64, 64}).Draw(t, "keys_boundary")
	default:
		c.n = 2 + int(hv[16])%63
	}
	c.privs = make([]Key, c.n)
	c.pubs = make([]Key, c.n)
	for i := range c.privs {
		c.privs[i] = vpKeyFromTag(c.base, "key", i)
		c.pubs[i] = c.privs[i].Public()
	}
	c.publics = vpKeyPtrs(c.pubs)
	all := ^uint64(0)
	if c.n < 64 {
		all = uint64(1)<<uint(c.n) - 1
	}
	switch rapid.IntRange(0, 6).Draw(t, "mask_kind") {
	case 0:
		c.mask = uint64(1) << uint(rapid.IntRange(0, c.n-1).Draw(t, "single"))
	case 1:
		c.mask = all
	case 2:
		c.mask = (u0 & all) | uint64(1)<<uint(c.n-1)
	case 3:
		c.mask = u0 & u1 & all // sparse
	case 4:
		c.mask = (u0 | u1) & all // dense
	case 5:
		c.mask = rapid.Uint64().Draw(t, "mask") & all
	default:
		c.mask = u0 & all
	}
	if c.mask == 0 {
		c.mask = uint64(1) << uint(rapid.IntRange(0, c.n-1).Draw(t, "nonempty"))
	}
	c.idx = vpMaskIndexes(c.mask)
	c.nonces = map[int]*Key{}
	c.commits = map[int]*Key{}
	for _, i := range c.idx {
		r := vpKeyFromTag(c.base, "nonce", i)
		R := r.Public()
		c.nonces[i] = &r
		c.commits[i] = &R
	}
	c.msg = vpHashFromTag(c.base, "msg", 0)
	return c
}

func (c *vpC13Case) respond(t *rapid.T, cosi *CosiSignature, publics []*Key, msg Hash) map[int]*[32]byte {
	out := map[int]*[32]byte{}
	for _, i := range c.idx {
		priv := c.privs[i]
		var s *[32]byte
		var err error
		if i%2 == 0 {
			r := *c.nonces[i]
			s, err = cosi.Response(&priv, &r, publics, msg)
		} else {
			// through the single-use handle (it wipes the copy it is given)
			r := *c.nonces[i]
			s, err = newCosiNonce(&r).Response(cosi, &priv, publics, msg)
		}
		if err != nil {
			t.Fatalf("honest response of signer %d failed: %v", i, err)
		}
		out[i] = s
	}
	return out
}

func vpC13CopyResponses(m map[int]*[32]byte) map[int]*[32]byte {
	out := make(map[int]*[32]byte, len(m))
	for i, s := range m {
		ss := *s
		out[i] = &ss
	}
	return out
}

// vpC13BadShare checks the three statements about a response that does not
// match its signer.
func vpC13BadShare(t *rapid.T, c *vpC13Case, what string, signer int, bad [32]byte, good map[int]*[32]byte) {
	cosi := c.build(t)
	if err := cosi.VerifyResponse(c.publics, signer, &bad, c.msg); err == nil {
		t.Fatalf("%s: VerifyResponse accepted a share that is not signer %d's (%x)", what, signer, bad[:8])
	}
	rs := vpC13CopyResponses(good)
	rs[signer] = &bad
	if err := cosi.AggregateResponse(c.publics, rs, c.msg, true); err == nil {
		t.Fatalf("%s: strict aggregation accepted a share that is not signer %d's", what, signer)
	}
	loose := c.build(t)
	rs = vpC13CopyResponses(good)
	rs[signer] = &bad
	if err := loose.AggregateResponse(c.publics, rs, c.msg, false); err == nil {
		if err := vpC13FullVerify(t, what+" (non-strict)", loose, c.publics, 1, c.msg); err == nil {
			t.Fatalf("%s: signature aggregated from a wrong share of signer %d verifies", what, signer)
		}
	}
}

func TestVP_C13_cosi(t *testing.T) {
	col := kit.New(t, "C13", "rapid: 1..64 distinct keys (boundary biased), non-empty mask (single / all / top index / sparse / random), honest commitments and responses, then every applicable structured tampering of that honest run (wrong/random/non-canonical/bit-flipped share, missing/extra response, swapped commitments, mask bit outside the vector, shortened or altered key vector, mask bit added/removed, repeated-signer forgery, message/signature bit flips, thresholds -1..|mask|+2); every FullVerify acceptance is cross-checked with a library-only point-sum verification; non-trivial = >=2 keys and >=2 masked signers; distinct by seed+n+mask")
	col.Require("honest", "mask-single", "mask-all", "mask-has-63", "share-other-signer", "share-random", "share-noncanonical", "share-bitflip",
		"response-missing", "response-extra", "commitment-swapped", "mask-index==len", "mask-index>len", "vector-shortened", "vector-key-replaced",
		"vector-permuted", "mask-bit-added", "mask-bit-removed", "repeated-signer", "message-changed", "signature-bitflip", "threshold>mask", "threshold<=0")
	kit.SetChecks(kit.N(600, 20000))
	rapid.Check(t, func(t *rapid.T) {
		c := vpC13Gen(t)
		k := len(c.idx)
		classes := []string{"honest"}
		if k == 1 {
			classes = append(classes, "mask-single")
		}
		if k == c.n {
			classes = append(classes, "mask-all")
		}
		if c.mask>>63 == 1 {
			classes = append(classes, "mask-has-63")
		}

		// ---- honest run
		cosi := c.build(t)
		responses := c.respond(t, cosi, c.publics, c.msg)
		for _, i := range c.idx {
			if err := cosi.VerifyResponse(c.publics, i, responses[i], c.msg); err != nil {
				t.Fatalf("VerifyResponse rejected the honest share of signer %d: %v", i, err)
			}
		}
		if err := cosi.AggregateResponse(c.publics, vpC13CopyResponses(responses), c.msg, true); err != nil {
			t.Fatalf("strict aggregation of honest shares failed (n=%d mask=%x): %v", c.n, c.mask, err)
		}
		final := cosi.Signature
		if !vpC13RefVerify(c.publics, c.mask, c.msg, final) {
			t.Fatalf("honest collective signature fails the independent verification (n=%d mask=%x)", c.n, c.mask)
		}
		loose := c.build(t)
		if err := loose.AggregateResponse(c.publics, vpC13CopyResponses(responses), c.msg, false); err != nil || loose.Signature != final {
			t.Fatalf("non-strict aggregation of honest shares: err=%v, same signature=%v", err, loose.Signature == final)
		}
		thresholds := []int{-1, 0, 1, k, k + 1, k + 2, rapid.IntRange(-3, 70).Draw(t, "threshold")}
		for _, th := range thresholds {
			err := vpC13FullVerify(t, "honest", cosi, c.publics, th, c.msg)
			want := th >= 1 && th <= k
			if want && err != nil {
				t.Fatalf("FullVerify(threshold %d, %d signers of %d keys) rejected an honest signature: %v", th, k, c.n, err)
			}
			if !want && err == nil {
				t.Fatalf("FullVerify accepted threshold %d with %d signers", th, k)
			}
			if th > k {
				classes = append(classes, "threshold>mask")
			}
			if th <= 0 {
				classes = append(classes, "threshold<=0")
			}
		}
		// a verifier that only holds the printed form (no commitments) reaches the same verdict
		plain := &CosiSignature{Signature: final, Mask: c.mask}
		if err := vpC13FullVerify(t, "honest/plain", plain, c.publics, k, c.msg); err != nil {
			t.Fatalf("FullVerify on the bare (signature, mask) pair rejected an honest signature: %v", err)
		}

		// ---- wrong shares
		victim := c.idx[rapid.IntRange(0, k-1).Draw(t, "victim")]
		if k >= 2 {
			other := c.idx[(rapid.IntRange(1, k-1).Draw(t, "other_off")+vpC13Pos(c.idx, victim))%k]
			vpC13BadShare(t, c, "share of another signer", victim, *responses[other], responses)
			classes = append(classes, "share-other-signer")
		}
		rnd := vpKeyFromTag(c.base, "random-share", victim)
		if [32]byte(rnd) != *responses[victim] {
			vpC13BadShare(t, c, "random canonical scalar", victim, [32]byte(rnd), responses)
			classes = append(classes, "share-random")
		}
		vpC13BadShare(t, c, "non-canonical share s+l", victim, vpAddL(responses[victim][:]), responses)
		classes = append(classes, "share-noncanonical")
		flipped := *responses[victim]
		bit := rapid.IntRange(0, 255).Draw(t, "share_bit")
		flipped[bit/8] ^= 1 << uint(bit%8)
		vpC13BadShare(t, c, fmt.Sprintf("share with bit %d flipped", bit), victim, flipped, responses)
		classes = append(classes, "share-bitflip")

		// ---- response map does not match the mask
		for _, strict := range []bool{true, false} {
			miss := vpC13CopyResponses(responses)
			delete(miss, victim)
			if err := c.build(t).AggregateResponse(c.publics, miss, c.msg, strict); err == nil {
				t.Fatalf("aggregation (strict=%v) accepted a response set without signer %d", strict, victim)
			}
			extraAt := rapid.IntRange(0, 70).Draw(t, "extra_at")
			if c.mask>>uint(extraAt%64)&1 == 0 || extraAt >= 64 {
				extra := vpC13CopyResponses(responses)
				e := [32]byte(vpKeyFromTag(c.base, "extra", extraAt))
				extra[extraAt] = &e
				if err := c.build(t).AggregateResponse(c.publics, extra, c.msg, strict); err == nil {
					t.Fatalf("aggregation (strict=%v) accepted an extra response at index %d outside mask %x", strict, extraAt, c.mask)
				}
				classes = append(classes, "response-extra")
			}
		}
		classes = append(classes, "response-missing")

		// ---- two commitments swapped inside the set: the sum is unchanged, single shares no longer match
		if k >= 2 {
			a, b := c.idx[0], c.idx[k-1]
			sw := c.commitCopy()
			sw[a], sw[b] = sw[b], sw[a]
			swapped, err := CosiAggregateCommitment(sw)
			if err != nil {
				t.Fatalf("aggregate of swapped commitments: %v", err)
			}
			if err := swapped.VerifyResponse(c.publics, a, responses[a], c.msg); err == nil {
				t.Fatalf("VerifyResponse accepted signer %d's share against signer %d's commitment", a, b)
			}
			if err := swapped.AggregateResponse(c.publics, vpC13CopyResponses(responses), c.msg, true); err == nil {
				t.Fatalf("strict aggregation accepted shares against swapped commitments")
			}
			classes = append(classes, "commitment-swapped")
		}

		// ---- mask index outside the key vector
		if c.n < 64 {
			outs := []int{c.n}
			if c.n < 63 {
				outs = append(outs, rapid.IntRange(c.n+1, 63).Draw(t, "outside"))
			}
			for _, o := range outs {
				cm := c.commitCopy()
				r := vpKeyFromTag(c.base, "outside-nonce", o)
				R := r.Public()
				cm[o] = &R
				wide, err := CosiAggregateCommitment(cm)
				if err != nil {
					t.Fatalf("aggregate with index %d: %v", o, err)
				}
				what := fmt.Sprintf("mask index %d with %d keys", o, c.n)
				if _, err := wide.Challenge(c.publics, c.msg); err == nil {
					t.Fatalf("%s: challenge computed", what)
				}
				priv := c.privs[victim]
				if s, err := wide.Response(&priv, c.nonces[victim], c.publics, c.msg); err == nil {
					t.Fatalf("%s: response produced %x", what, s[:8])
				}
				if err := wide.VerifyResponse(c.publics, victim, responses[victim], c.msg); err == nil {
					t.Fatalf("%s: VerifyResponse accepted", what)
				}
				rs := vpC13CopyResponses(responses)
				e := [32]byte(vpKeyFromTag(c.base, "extra", o))
				rs[o] = &e
				for _, strict := range []bool{true, false} {
					if err := wide.AggregateResponse(c.publics, rs, c.msg, strict); err == nil {
						t.Fatalf("%s: aggregation (strict=%v) accepted", what, strict)
					}
				}
				forged := &CosiSignature{Signature: final, Mask: c.mask | uint64(1)<<uint(o)}
				if err := vpC13FullVerify(t, what, forged, c.publics, 1, c.msg); err == nil {
					t.Fatalf("%s: FullVerify accepted", what)
				}
				if o == c.n {
					classes = append(classes, "mask-index==len")
				} else {
					classes = append(classes, "mask-index>len")
				}
			}
		}
		// the same signature against a key vector cut at or below the highest signer
		top := c.idx[k-1]
		cut := rapid.IntRange(0, top).Draw(t, "cut")
		short := c.publics[:cut]
		for _, th := range []int{1, k} {
			if err := vpC13FullVerify(t, "shortened vector", &CosiSignature{Signature: final, Mask: c.mask}, short, th, c.msg); err == nil {
				t.Fatalf("FullVerify accepted mask %x against a vector of %d keys", c.mask, cut)
			}
		}
		if err := c.build(t).VerifyResponse(short, victim, responses[victim], c.msg); err == nil {
			t.Fatalf("VerifyResponse accepted mask %x against a vector of %d keys", c.mask, cut)
		}
		if err := c.build(t).AggregateResponse(short, vpC13CopyResponses(responses), c.msg, false); err == nil {
			t.Fatalf("AggregateResponse accepted mask %x against a vector of %d keys", c.mask, cut)
		}
		classes = append(classes, "vector-shortened")

		// ---- altered key vector
		repl := append([]*Key{}, c.publics...)
		strangerPriv := vpKeyFromTag(c.base, "stranger", 0)
		stranger := strangerPriv.Public()
		repl[victim] = &stranger
		if err := vpC13FullVerify(t, "key replaced", &CosiSignature{Signature: final, Mask: c.mask}, repl, 1, c.msg); err == nil {
			t.Fatalf("FullVerify accepted after key %d of the vector was replaced", victim)
		}
		classes = append(classes, "vector-key-replaced")
		if k < c.n {
			// move a signer's key to a position outside the mask
			var free []int
			for i := 0; i < c.n; i++ {
				if c.mask>>uint(i)&1 == 0 {
					free = append(free, i)
				}
			}
			p := free[rapid.IntRange(0, len(free)-1).Draw(t, "free")]
			perm := append([]*Key{}, c.publics...)
			perm[victim], perm[p] = perm[p], perm[victim]
			if err := vpC13FullVerify(t, "vector permuted", &CosiSignature{Signature: final, Mask: c.mask}, perm, 1, c.msg); err == nil {
				t.Fatalf("FullVerify accepted after keys %d and %d were exchanged (mask %x)", victim, p, c.mask)
			}
			classes = append(classes, "vector-permuted")

			// a signer the mask names but who never contributed
			added := &CosiSignature{Signature: final, Mask: c.mask | uint64(1)<<uint(p)}
			if err := vpC13FullVerify(t, "mask bit added", added, c.publics, 1, c.msg); err == nil {
				t.Fatalf("FullVerify accepted mask %x for a signature made by %x", added.Mask, c.mask)
			}
			classes = append(classes, "mask-bit-added")
		}
		// the same value that was just used for the honest run (challenge,
		// responses, verification) gets its exported Mask edited in place, as a
		// decoder or a caller may do: verification must judge the mask it sees now
		{
			saved := cosi.Mask
			edits := []uint64{}
			if k >= 2 {
				edits = append(edits, saved&^(uint64(1)<<uint(victim)))
			}
			for o := 0; o < c.n; o++ {
				if saved&(uint64(1)<<uint(o)) == 0 {
					edits = append(edits, saved|uint64(1)<<uint(o))
					break
				}
			}
			if c.n < 64 {
				edits = append(edits, saved|uint64(1)<<uint(c.n))
			}
			for _, m := range edits {
				cosi.Mask = m
				if err := vpC13FullVerify(t, "mask edited in place", cosi, c.publics, 1, c.msg); err == nil {
					t.Fatalf("FullVerify accepted mask %x on a value whose signature was made by %x (mask edited after use)", m, saved)
				}
				classes = append(classes, "mask-edited-in-place")
			}
			cosi.Mask = saved
			if err := vpC13FullVerify(t, "mask restored", cosi, c.publics, k, c.msg); err != nil {
				t.Fatalf("FullVerify rejected the honest signature after its mask was edited and restored: %v", err)
			}
		}
		// a valid share offered under a signer index the mask does not name (below,
		// between or above the masked ones, negative included) never verifies
		{
			probe := c.build(t)
			for _, j := range []int{-1, 0, victim - 1, victim + 1, c.n - 1, c.n, 63, 64} {
				if j >= 0 && j < 64 && c.mask&(uint64(1)<<uint(j)) != 0 {
					continue
				}
				for _, i := range c.idx {
					var verr error
					if p := vpCatch(func() { verr = probe.VerifyResponse(c.publics, j, responses[i], c.msg) }); p != nil {
						t.Fatalf("VerifyResponse panicked for signer index %d: %v", j, p)
					}
					if verr == nil {
						t.Fatalf("VerifyResponse accepted signer %d's share under index %d, which mask %x does not name", i, j, c.mask)
					}
				}
				classes = append(classes, "share-under-unmasked-index")
			}
		}
		if k >= 2 {
			removed := &CosiSignature{Signature: final, Mask: c.mask &^ (uint64(1) << uint(victim))}
			if err := vpC13FullVerify(t, "mask bit removed", removed, c.publics, 1, c.msg); err == nil {
				t.Fatalf("FullVerify accepted mask %x for a signature made by %x", removed.Mask, c.mask)
			}
			classes = append(classes, "mask-bit-removed")

			// repeated signer: signer a contributes twice, signer b (named by the mask) not at all
			a, b := victim, c.idx[(vpC13Pos(c.idx, victim)+1)%k]
			Rsum := edwards25519.NewIdentityPoint()
			for _, i := range c.idx {
				j := i
				if i == b {
					j = a
				}
				p, _ := vpRefPoint(c.commits[j][:])
				Rsum.Add(Rsum, p)
			}
			A, _ := vpRefSum(c.publics, c.idx)
			ch := vpRefChallenge(Rsum.Bytes(), A.Bytes(), c.msg[:])
			S := edwards25519.NewScalar()
			for _, i := range c.idx {
				j := i
				if i == b {
					j = a
				}
				x, _ := vpRefScalar(c.privs[j][:])
				r, _ := vpRefScalar(c.nonces[j][:])
				S.Add(S, edwards25519.NewScalar().MultiplyAdd(ch, x, r))
			}
			rep := &CosiSignature{Mask: c.mask}
			copy(rep.Signature[:32], Rsum.Bytes())
			copy(rep.Signature[32:], S.Bytes())
			if err := vpC13FullVerify(t, "repeated signer", rep, c.publics, 1, c.msg); err == nil {
				t.Fatalf("FullVerify accepted a signature in which signer %d answered twice and signer %d never (mask %x)", a, b, c.mask)
			}
			classes = append(classes, "repeated-signer")
		}

		// ---- message / signature bit flips
		m2 := c.msg
		mb := rapid.IntRange(0, 255).Draw(t, "msg_bit")
		m2[mb/8] ^= 1 << uint(mb%8)
		if err := vpC13FullVerify(t, "message bit", &CosiSignature{Signature: final, Mask: c.mask}, c.publics, 1, m2); err == nil {
			t.Fatalf("FullVerify accepted after message bit %d was flipped", mb)
		}
		classes = append(classes, "message-changed")
		s2 := final
		sb := rapid.IntRange(0, 511).Draw(t, "sig_bit")
		s2[sb/8] ^= 1 << uint(sb%8)
		if err := vpC13FullVerify(t, "signature bit", &CosiSignature{Signature: s2, Mask: c.mask}, c.publics, 1, c.msg); err == nil {
			t.Fatalf("FullVerify accepted after signature bit %d was flipped", sb)
		}
		classes = append(classes, "signature-bitflip")

		col.Case(fmt.Sprintf("%x|%d|%x", c.base, c.n, c.mask), c.n >= 2 && k >= 2, classes...)
		col.Sample(map[string]any{"keys": c.n, "mask": fmt.Sprintf("%016x", c.mask), "signers": k})
	})
}

func vpC13Pos(idx []int, v int) int {
	for p, i := range idx {
		if i == v {
			return p
		}
	}
	return 0
}

// TestVP_C13_commit_index: the commitment set can only name indexes 0..63, and
// never an empty or nil entry.
func TestVP_C13_commit_index(t *testing.T) {
	col := kit.New(t, "C13", "deterministic sweep: commitment sets holding one index from -3..130 (plus a valid companion); indexes outside 0..63 must be refused, inside must set exactly that mask bit; non-trivial = index outside 0..63; distinct by index")
	base := []byte("c13-commit-index")
	good := vpKeyFromTag(base, "nonce", 0).Public()
	for i := -3; i <= 130; i++ {
		R := vpKeyFromTag(base, "nonce", i+10).Public()
		set := map[int]*Key{i: &R}
		if i != 5 {
			g := good
			set[5] = &g
		}
		cosi, err := CosiAggregateCommitment(set)
		if i < 0 || i >= 64 {
			if err == nil {
				t.Fatalf("commitment index %d accepted (mask %x)", i, cosi.Mask)
			}
			col.Case(fmt.Sprint(i), true, "index-outside-mask")
			continue
		}
		want := uint64(1)<<uint(i) | uint64(1)<<5
		if err != nil || cosi.Mask != want || !bytes.Equal(cosi.commitments[i][:], R[:]) {
			t.Fatalf("commitment index %d: err=%v mask=%x want %x", i, err, cosi.Mask, want)
		}
		col.Case(fmt.Sprint(i), false, "index-inside-mask")
	}
	if _, err := CosiAggregateCommitment(map[int]*Key{}); err == nil {
		t.Fatalf("empty commitment set accepted")
	}
	col.Exhaustive("all single commitment indexes -3..130")
}
