//go:build verif

package crypto

import (
	"crypto/sha512"
	"encoding/binary"
	"fmt"
	"sort"
	"testing"

	"filippo.io/edwards25519"
	"pgregory.net/rapid"
	kit "verifkit"
)

type vpC14Case struct {
	base    []byte
	n       int
	privs   []Key
	pubs    []Key
	publics []*Key
	signers []int
	seed    []byte
	msg     Hash
	dups    bool
}

func (c *vpC14Case) privsFor(signers []int) []*Key {
	out := make([]*Key, len(signers))
	for p, i := range signers {
		if i >= 0 && i < c.n {
			k := c.privs[i]
			out[p] = &k
		} else {
			k := vpKeyFromTag(c.base, "no-such-key", i)
			out[p] = &k
		}
	}
	return out
}

// vpC14Selected is the (index, key) sequence a signer list selects; two calls
// are the same statement exactly when these sequences are equal.
func vpC14Selected(publics []*Key, signers []int) string {
	s := ""
	for _, i := range signers {
		if i < 0 || i >= len(publics) {
			s += fmt.Sprintf("%d:out|", i)
			continue
		}
		s += fmt.Sprintf("%d:%x|", i, publics[i][:])
	}
	return s
}

// vpC14RefVerify checks the signature with library arithmetic: the weighted key
// must be sum(coeff_i * P_i) for the coefficients the package derives, and
// S*B == R + H(R||A||m)*A.
func vpC14RefVerify(publics []*Key, signers []int, msg Hash, sig *Signature) error {
	A, coeffs, _, err := aggregateWeightedPublicKey(publics, signers)
	if err != nil {
		return err
	}
	if len(coeffs) != len(signers) {
		return fmt.Errorf("%d coefficients for %d signers", len(coeffs), len(signers))
	}
	sum := edwards25519.NewIdentityPoint()
	seen := map[[32]byte]bool{}
	for p, i := range signers {
		P, err := vpRefPoint(publics[i][:])
		if err != nil {
			return err
		}
		var cb [32]byte
		copy(cb[:], coeffs[p].Bytes())
		if cb == [32]byte{} {
			return fmt.Errorf("zero coefficient for signer %d", i)
		}
		if seen[cb] {
			return fmt.Errorf("coefficient of signer %d repeats another signer's", i)
		}
		seen[cb] = true
		sum.Add(sum, edwards25519.NewIdentityPoint().ScalarMult(coeffs[p], P))
	}
	if string(sum.Bytes()) != string(A[:]) {
		return fmt.Errorf("aggregate key is not the coefficient-weighted sum of the signer keys")
	}
	if !vpRefSchnorrVerify(A[:], msg[:], sig[:]) {
		return fmt.Errorf("S*B != R + H(R,A,m)*A")
	}
	return nil
}

func vpC14Verify(t *rapid.T, what string, sig *Signature, publics []*Key, signers []int, msg Hash) error {
	err := AggregateVerify(sig, publics, signers, msg)
	if err == nil {
		if rerr := vpC14RefVerify(publics, signers, msg, sig); rerr != nil {
			t.Fatalf("%s: AggregateVerify accepted, independent verification does not: %v", what, rerr)
		}
	}
	return err
}

// vpC14MustFail asserts a negative class: signing fails, or whatever it
// produced does not verify for the same arguments.
func vpC14SignMustFail(t *rapid.T, what string, privs []*Key, publics []*Key, signers []int, seed []byte, msg Hash) {
	var sig *Signature
	var err error
	if p := vpCatch(func() { sig, err = AggregateSign(privs, publics, signers, seed, msg) }); p != nil {
		t.Fatalf("%s: AggregateSign panicked: %v (signers %v of %d keys)", what, p, signers, len(publics))
	}
	if err != nil {
		return
	}
	var verr error
	if p := vpCatch(func() { verr = vpC14Verify(t, what, sig, publics, signers, msg) }); p != nil {
		t.Fatalf("%s: AggregateVerify panicked: %v", what, p)
	}
	if verr == nil {
		t.Fatalf("%s: signed and verified (signers %v of %d keys)", what, signers, len(publics))
	}
}

func vpC14VerifyMustFail(t *rapid.T, what string, sig *Signature, publics []*Key, signers []int, msg Hash) {
	var verr error
	if p := vpCatch(func() { verr = vpC14Verify(t, what, sig, publics, signers, msg) }); p != nil {
		t.Fatalf("%s: AggregateVerify panicked: %v (signers %v of %d keys)", what, p, signers, len(publics))
	}
	if verr == nil {
		t.Fatalf("%s: signature still verifies (signers %v of %d keys)", what, signers, len(publics))
	}
}

// vpC14SmallOrder: encodings of curve points nobody holds a private key for
// (identity, the point of order 2, a point of order 4).
var vpC14SmallOrder = [][32]byte{
	{1},
	{0xec, 0xff, 0xff, 0xff, 0xff, 0xff, 0xff, 0xff, 0xff, 0xff, 0xff, 0xff, 0xff, 0xff, 0xff, 0xff, 0xff, 0xff, 0xff, 0xff, 0xff, 0xff, 0xff, 0xff, 0xff, 0xff, 0xff, 0xff, 0xff, 0xff, 0xff, 0x7f},
	{},
}

// vpC14LoneForgery: the holder of the private key at index i alone signs for
// the signer set {i, j} of a vector whose key at j is the small-order point T,
// betting that T's weighted contribution to the aggregate key vanishes. All
// arithmetic is the library's; the transcript and coefficient layout are the
// published ones (count, then index||key per signer; SHA-512 with the domain
// strings).
func vpC14LoneForgery(publics []*Key, i, j int, yi *Key, T [32]byte, nonce []byte, msg Hash) (*Signature, []*Key, []int, bool) {
	vec := append([]*Key{}, publics...)
	tk := Key(T)
	vec[j] = &tk
	signers := []int{i, j}
	sort.Ints(signers)
	transcript := binary.BigEndian.AppendUint32(nil, 2)
	for _, s := range signers {
		transcript = binary.BigEndian.AppendUint32(transcript, uint32(s))
		transcript = append(transcript, vec[s][:]...)
	}
	coeff := func(s int) *edwards25519.Scalar {
		h := sha512.New()
		h.Write([]byte("mixin-aggregate-coefficient-v1"))
		h.Write(transcript)
		h.Write(binary.BigEndian.AppendUint32(nil, uint32(s)))
		h.Write(vec[s][:])
		c, _ := edwards25519.NewScalar().SetUniformBytes(h.Sum(nil))
		return c
	}
	ai, aj := coeff(i), coeff(j)
	Tp, err := edwards25519.NewIdentityPoint().SetBytes(T[:])
	if err != nil {
		return nil, nil, nil, false
	}
	vanishes := edwards25519.NewIdentityPoint().ScalarMult(aj, Tp).Equal(edwards25519.NewIdentityPoint()) == 1
	Xi, err := edwards25519.NewIdentityPoint().SetBytes(vec[i][:])
	if err != nil {
		return nil, nil, nil, false
	}
	A := edwards25519.NewIdentityPoint().ScalarMult(ai, Xi)
	A.Add(A, edwards25519.NewIdentityPoint().ScalarMult(aj, Tp))
	nh := sha512.Sum512(nonce)
	r, _ := edwards25519.NewScalar().SetUniformBytes(nh[:])
	R := edwards25519.NewIdentityPoint().ScalarBaseMult(r)
	ch := sha512.New()
	ch.Write(R.Bytes())
	ch.Write(A.Bytes())
	ch.Write(msg[:])
	x, _ := edwards25519.NewScalar().SetUniformBytes(ch.Sum(nil))
	y, err := edwards25519.NewScalar().SetCanonicalBytes(yi[:])
	if err != nil {
		return nil, nil, nil, false
	}
	S := edwards25519.NewScalar().MultiplyAdd(x, edwards25519.NewScalar().Multiply(ai, y), r)
	var sig Signature
	copy(sig[:32], R.Bytes())
	copy(sig[32:], S.Bytes())
	return &sig, vec, signers, vanishes
}

func vpC14Gen(t *rapid.T, maxN int) *vpC14Case {
	c := &vpC14Case{base: vpSeed(t, 16, "seed")}
	hv := vpHashFromTag(c.base, "shape", 0)
	switch rapid.IntRange(0, 3).Draw(t, "keys_kind") {
	case 0:
		c.n = rapid.IntRange(1, maxN).Draw(t, "keys")
	case 1:
		c.n = rapid.SampledFrom([]int{1, 2, 3, maxN - 1, maxN}).Draw(t, "keys_boundary")
	default:
		c.n = 2 + (int(hv[16])|int(hv[17])<<8)%(maxN-1)
	}
	c.dups = rapid.IntRange(0, 4).Draw(t, "dups") == 0
	pool := c.n
	if c.dups {
		pool = (c.n + 1) / 2
	}
	c.privs = make([]Key, c.n)
	c.pubs = make([]Key, c.n)
	poolPriv := make([]Key, pool)
	poolPub := make([]Key, pool)
	for i := range poolPriv {
		poolPriv[i] = vpKeyFromTag(c.base, "key", i)
		poolPub[i] = poolPriv[i].Public()
	}
	for i := 0; i < c.n; i++ {
		j := i
		if c.dups {
			j = int(vpHashFromTag(c.base, "pick", i)[0]) % pool
		}
		c.privs[i], c.pubs[i] = poolPriv[j], poolPub[j]
	}
	c.publics = vpKeyPtrs(c.pubs)

	// signer subset: size by kind, members by seed-derived shuffle
	var k int
	switch rapid.IntRange(0, 7).Draw(t, "signers_kind") {
	case 0:
		k = 1
	case 1:
		k = c.n
	case 2:
		k = rapid.IntRange(1, c.n).Draw(t, "signers")
	default:
		k = 1 + int(hv[18])%c.n
		if k > 16 && rapid.Bool().Draw(t, "cap") {
			k = 2 + int(hv[19])%15
		}
	}
	perm := make([]int, c.n)
	for i := range perm {
		perm[i] = i
	}
	for i := c.n - 1; i > 0; i-- {
		h := vpHashFromTag(c.base, "shuffle", i)
		j := (int(h[0]) | int(h[1])<<8 | int(h[2])<<16) % (i + 1)
		perm[i], perm[j] = perm[j], perm[i]
	}
	c.signers = append([]int{}, perm[:k]...)
	if rapid.IntRange(0, 5).Draw(t, "top") == 0 && !vpC14Has(c.signers, c.n-1) {
		c.signers[0] = c.n - 1
	}
	sort.Ints(c.signers)
	c.seed = vpSeed(t, rapid.IntRange(32, 80).Draw(t, "seed_len"), "aux")
	c.msg = vpHashFromTag(c.base, "msg", 0)
	return c
}

func vpC14Has(s []int, v int) bool {
	for _, x := range s {
		if x == v {
			return true
		}
	}
	return false
}

func vpC14Without(s []int, pos int) []int {
	out := append([]int{}, s[:pos]...)
	return append(out, s[pos+1:]...)
}

func vpC14Insert(s []int, v int) []int {
	out := append([]int{}, s...)
	out = append(out, v)
	sort.Ints(out)
	return out
}

func TestVP_C14_aggregate(t *testing.T) {
	maxN := 100
	if kit.Thorough() {
		maxN = 300
	}
	col := kit.New(t, "C14", fmt.Sprintf("rapid: key vectors 1..%d (one in five with repeated keys), sorted signer subsets (single / all / random sizes, top index), seeds 32..80 bytes; honest AggregateSign must verify for exactly its arguments, then every applicable negative class of that run must fail in AggregateSign or AggregateVerify (unsorted, duplicated, out-of-range incl. not in last position, negative index; a lone key holder forging for a set whose other member is a small-order point; other message; signer key replaced; vector permuted; signer added/removed/shifted; same keys re-laid-out at other indexes; subset signs for superset; wrong private key; rogue-key cancellation; signature bit flip); every acceptance is cross-checked with library-only arithmetic; non-trivial = >=2 signers; distinct by seed+n+signers", maxN))
	col.Require("honest", "signers-single", "signers-all", "signers-top-index", "dup-keys", "unsorted", "duplicated", "out-of-range", "out-of-range-not-last", "small-order-member", "small-order-forgery-live", "negative-index",
		"other-message", "key-replaced", "vector-permuted", "signer-added", "signer-removed", "signer-shifted", "relayout", "subset-for-superset",
		"wrong-private", "rogue-key", "signature-bitflip")
	kit.SetChecks(kit.N(500, 15000))
	rapid.Check(t, func(t *rapid.T) {
		c := vpC14Gen(t, maxN)
		k := len(c.signers)
		classes := []string{"honest"}
		if k == 1 {
			classes = append(classes, "signers-single")
		}
		if k == c.n {
			classes = append(classes, "signers-all")
		}
		if c.signers[k-1] == c.n-1 {
			classes = append(classes, "signers-top-index")
		}
		if c.dups {
			classes = append(classes, "dup-keys")
		}

		sig, err := AggregateSign(c.privsFor(c.signers), c.publics, c.signers, c.seed, c.msg)
		if err != nil {
			t.Fatalf("AggregateSign failed for sorted signers %v of %d keys: %v", c.signers, c.n, err)
		}
		if err := vpC14Verify(t, "honest", sig, c.publics, c.signers, c.msg); err != nil {
			t.Fatalf("honest aggregate signature rejected (signers %v of %d keys): %v", c.signers, c.n, err)
		}
		if err := vpC14RefVerify(c.publics, c.signers, c.msg, sig); err != nil {
			t.Fatalf("honest aggregate signature fails the independent verification: %v", err)
		}
		sel := vpC14Selected(c.publics, c.signers)
		pick := rapid.IntRange(0, k-1).Draw(t, "pick")
		victim := c.signers[pick]

		// ---- signer list shape
		if k >= 2 {
			uns := append([]int{}, c.signers...)
			a := rapid.IntRange(0, k-2).Draw(t, "swap_at")
			b := rapid.IntRange(a+1, k-1).Draw(t, "swap_with")
			uns[a], uns[b] = uns[b], uns[a]
			vpC14SignMustFail(t, "unsorted signers", c.privsFor(uns), c.publics, uns, c.seed, c.msg)
			vpC14VerifyMustFail(t, "honest signature, unsorted signers", sig, c.publics, uns, c.msg)
			rev := append([]int{}, c.signers...)
			for i, j := 0, k-1; i < j; i, j = i+1, j-1 {
				rev[i], rev[j] = rev[j], rev[i]
			}
			vpC14SignMustFail(t, "reversed signers", c.privsFor(rev), c.publics, rev, c.seed, c.msg)
			classes = append(classes, "unsorted")
		}
		dup := append([]int{}, c.signers[:pick+1]...)
		dup = append(dup, c.signers[pick:]...)
		vpC14SignMustFail(t, "duplicated signer", c.privsFor(dup), c.publics, dup, c.seed, c.msg)
		vpC14VerifyMustFail(t, "honest signature, duplicated signer", sig, c.publics, dup, c.msg)
		classes = append(classes, "duplicated")
		for _, o := range []int{c.n, c.n + rapid.IntRange(1, 1000).Draw(t, "beyond")} {
			out := append(append([]int{}, c.signers...), o)
			vpC14SignMustFail(t, "signer index beyond the vector", c.privsFor(out), c.publics, out, c.seed, c.msg)
			vpC14VerifyMustFail(t, "honest signature, extra index beyond the vector", sig, c.publics, out, c.msg)
			only := []int{o}
			vpC14SignMustFail(t, "only signer beyond the vector", c.privsFor(only), c.publics, only, c.seed, c.msg)
		}
		classes = append(classes, "out-of-range")
		neg := append([]int{-1 - rapid.IntRange(0, 3).Draw(t, "neg")}, c.signers...)
		vpC14SignMustFail(t, "negative signer index", c.privsFor(neg), c.publics, neg, c.seed, c.msg)
		vpC14VerifyMustFail(t, "honest signature, negative index", sig, c.publics, neg, c.msg)
		classes = append(classes, "negative-index")
		// both defects at once: an index beyond the vector that is not the last
		// element of the list (so the list is unsorted as well)
		for _, o := range []int{c.n, c.n + rapid.IntRange(1, 1<<20).Draw(t, "beyond_inside")} {
			front := append([]int{o}, c.signers...)
			vpC14SignMustFail(t, "index beyond the vector before in-range ones", c.privsFor(front), c.publics, front, c.seed, c.msg)
			vpC14VerifyMustFail(t, "honest signature, index beyond the vector before in-range ones", sig, c.publics, front, c.msg)
			if k >= 2 {
				mid := append([]int{}, c.signers[:k-1]...)
				mid = append(mid, o, c.signers[k-1])
				vpC14VerifyMustFail(t, "honest signature, index beyond the vector inside the list", sig, c.publics, mid, c.msg)
			}
		}
		classes = append(classes, "out-of-range-not-last")
		// a lone signer forging for a larger set whose other member is a point of
		// small order (nobody holds its private key)
		if c.n >= 2 {
			j := (victim + 1 + rapid.IntRange(0, c.n-2).Draw(t, "small_order_at")) % c.n
			for ti, T := range vpC14SmallOrder {
				forged, vec, set, vanishes := vpC14LoneForgery(c.publics, victim, j, &c.privs[victim], T, append([]byte{byte(ti)}, c.seed...), c.msg)
				if forged == nil {
					continue
				}
				vpC14VerifyMustFail(t, fmt.Sprintf("one private key signing for signers %v whose other key is the small-order point %x", set, T[:4]), forged, vec, set, c.msg)
				if vanishes {
					classes = append(classes, "small-order-forgery-live")
				}
			}
			classes = append(classes, "small-order-member")
		}
		vpC14VerifyMustFail(t, "honest signature, empty signer list", sig, c.publics, nil, c.msg)

		// ---- message
		m2 := c.msg
		mb := rapid.IntRange(0, 255).Draw(t, "msg_bit")
		m2[mb/8] ^= 1 << uint(mb%8)
		vpC14VerifyMustFail(t, "other message", sig, c.publics, c.signers, m2)
		classes = append(classes, "other-message")

		// ---- key vector
		stranger := vpKeyFromTag(c.base, "stranger", 0).Public()
		repl := append([]*Key{}, c.publics...)
		repl[victim] = &stranger
		vpC14VerifyMustFail(t, "signer key replaced", sig, repl, c.signers, c.msg)
		classes = append(classes, "key-replaced")
		if c.n >= 2 {
			q := rapid.IntRange(0, c.n-2).Draw(t, "perm_with")
			if q >= victim {
				q++
			}
			perm := append([]*Key{}, c.publics...)
			perm[victim], perm[q] = perm[q], perm[victim]
			if vpC14Selected(perm, c.signers) != sel {
				vpC14VerifyMustFail(t, "vector permuted", sig, perm, c.signers, c.msg)
				classes = append(classes, "vector-permuted")
			}
		}

		// ---- signer set
		if k < c.n {
			var free []int
			for i := 0; i < c.n; i++ {
				if !vpC14Has(c.signers, i) {
					free = append(free, i)
				}
			}
			j := free[rapid.IntRange(0, len(free)-1).Draw(t, "free")]
			super := vpC14Insert(c.signers, j)
			vpC14VerifyMustFail(t, "signer added", sig, c.publics, super, c.msg)
			classes = append(classes, "signer-added")
			shifted := vpC14Insert(vpC14Without(c.signers, pick), j)
			vpC14VerifyMustFail(t, "signer shifted", sig, c.publics, shifted, c.msg)
			classes = append(classes, "signer-shifted")

			// private keys of S only, claim S + {j}
			vpC14SignMustFail(t, "subset signs for superset (too few private keys)", c.privsFor(c.signers), c.publics, super, c.seed, c.msg)
			padded := make([]*Key, 0, k+1)
			for _, i := range super {
				kk := c.privs[i]
				if i == j {
					kk = c.privs[victim] // a key the subset does hold
				}
				padded = append(padded, &kk)
			}
			if c.pubs[j] != c.pubs[victim] {
				vpC14SignMustFail(t, "subset signs for superset (own key in the foreign slot)", padded, c.publics, super, c.seed, c.msg)
			}
			classes = append(classes, "subset-for-superset")
		}
		if k >= 2 {
			vpC14VerifyMustFail(t, "signer removed", sig, c.publics, vpC14Without(c.signers, pick), c.msg)
			classes = append(classes, "signer-removed")
		}

		// ---- same signer keys in the same order, every index moved up by one
		at := rapid.IntRange(0, c.signers[0]).Draw(t, "insert_at")
		laid := append([]*Key{}, c.publics[:at]...)
		laid = append(laid, &stranger)
		laid = append(laid, c.publics[at:]...)
		moved := make([]int, k)
		for p, i := range c.signers {
			moved[p] = i + 1
		}
		vpC14VerifyMustFail(t, "same keys at shifted indexes", sig, laid, moved, c.msg)
		classes = append(classes, "relayout")

		// ---- wrong private key in one slot
		wrong := c.privsFor(c.signers)
		w := vpKeyFromTag(c.base, "wrong-private", victim)
		wrong[pick] = &w
		vpC14SignMustFail(t, "private key does not belong to the signer", wrong, c.publics, c.signers, c.seed, c.msg)
		classes = append(classes, "wrong-private")

		// ---- rogue key: K_v = x*B - sum(other signer keys); plain signature under x
		if k >= 2 {
			x := vpKeyFromTag(c.base, "rogue", 0)
			X := x.Public()
			Xp, _ := vpRefPoint(X[:])
			others := edwards25519.NewIdentityPoint()
			for _, i := range c.signers {
				if i != victim {
					p, _ := vpRefPoint(c.publics[i][:])
					others.Add(others, p)
				}
			}
			var rogue Key
			copy(rogue[:], edwards25519.NewIdentityPoint().Subtract(Xp, others).Bytes())
			rv := append([]*Key{}, c.publics...)
			rv[victim] = &rogue
			forged := x.Sign(c.msg)
			if !X.Verify(c.msg, forged) {
				t.Fatalf("harness: plain signature under the rogue scalar does not verify")
			}
			vpC14VerifyMustFail(t, "rogue-key cancellation", &forged, rv, c.signers, c.msg)
			classes = append(classes, "rogue-key")
		}

		// ---- signature bits
		s2 := *sig
		sb := rapid.IntRange(0, 511).Draw(t, "sig_bit")
		s2[sb/8] ^= 1 << uint(sb%8)
		vpC14VerifyMustFail(t, "signature bit flipped", &s2, c.publics, c.signers, c.msg)
		vpC14VerifyMustFail(t, "nil signature", nil, c.publics, c.signers, c.msg)
		classes = append(classes, "signature-bitflip")

		col.Case(fmt.Sprintf("%x|%d|%v", c.base, c.n, c.signers), k >= 2, classes...)
		col.Sample(map[string]any{"keys": c.n, "signers": k, "first": c.signers[0], "last": c.signers[k-1], "dup_keys": c.dups})
	})
}
