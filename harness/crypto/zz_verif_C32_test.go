//go:build verif

package crypto

import (
	"encoding/json"
	"fmt"
	"strings"
	"testing"

	"pgregory.net/rapid"
	kit "verifkit"
)

var vpC32Indexes = []uint64{0, 1, 2, 127, 128, 255, 256, 16383, 16384, 65535, 65536, 1<<31 - 1, 1 << 31, 1<<32 - 1, 1 << 32, 1<<32 + 1,
	1<<56 - 1, 1 << 56, 1<<63 - 1, 1 << 63, 1<<64 - 1}

func vpC32GenIndex(t *rapid.T, label string) uint64 {
	switch rapid.IntRange(0, 4).Draw(t, label+"_kind") {
	case 4:
		return rapid.SampledFrom([]uint64{0, 1, 1<<32 - 1, 1 << 32}).Draw(t, label+"_named")
	case 0:
		return rapid.SampledFrom(vpC32Indexes).Draw(t, label+"_boundary")
	case 1:
		return rapid.Uint64Range(0, 1<<32).Draw(t, label+"_32")
	case 2:
		return rapid.Uint64Range(0, 300).Draw(t, label+"_small")
	default:
		return rapid.Uint64().Draw(t, label+"_64")
	}
}

func vpC32IndexClass(i uint64) string {
	switch {
	case i == 0:
		return "index=0"
	case i == 1:
		return "index=1"
	case i == 1<<32-1:
		return "index=2^32-1"
	case i == 1<<32:
		return "index=2^32"
	case i > 1<<32:
		return "index>2^32"
	case i >= 128:
		return "index-multibyte"
	default:
		return "index-small"
	}
}

// TestVP_C32_ghost: sender-side and recipient-side one-time key derivation agree,
// and viewing recovers the recipient's public spend key.
func TestVP_C32_ghost(t *testing.T) {
	col := kit.New(t, "C32", "rapid: recipient (a,b) and transaction mask r from seed bytes, output index from {0,1,2^32-1,2^32, varint and word boundaries, uniform 0..2^32, uniform 64-bit}; oracle: DeriveGhostPublicKey(r,A,B,i) == DeriveGhostPrivateKey(R,a,b,i).Public(), ViewGhostOutputKey(P,a,R,i) == B, and the key differs for i+1, i+2^32 and a second drawn index; non-trivial = index != 0; distinct by seed+index")
	col.Require("index=0", "index=1", "index=2^32-1", "index=2^32", "index>2^32", "index-multibyte", "index-small")
	kit.SetChecks(kit.N(1200, 60000))
	rapid.Check(t, func(t *rapid.T) {
		base := vpSeed(t, 16, "seed")
		a := vpKeyFromTag(base, "view", 0)
		b := vpKeyFromTag(base, "spend", 0)
		r := vpKeyFromTag(base, "mask", 0)
		A, B, R := a.Public(), b.Public(), r.Public()
		i := vpC32GenIndex(t, "i")

		derive := func(i uint64) Key {
			var P, p *Key
			if pv := vpCatch(func() { P = DeriveGhostPublicKey(&r, &A, &B, i) }); pv != nil {
				t.Fatalf("DeriveGhostPublicKey(index %d) panicked: %v", i, pv)
			}
			if pv := vpCatch(func() { p = DeriveGhostPrivateKey(&R, &a, &b, i) }); pv != nil {
				t.Fatalf("DeriveGhostPrivateKey(index %d) panicked: %v", i, pv)
			}
			if p.Public() != *P {
				t.Fatalf("index %d: sender derives %s, recipient's private key has public %s", i, P, p.Public())
			}
			var back *Key
			if pv := vpCatch(func() { back = ViewGhostOutputKey(P, &a, &R, i) }); pv != nil {
				t.Fatalf("ViewGhostOutputKey(index %d) panicked: %v", i, pv)
			}
			if *back != B {
				t.Fatalf("index %d: viewing recovers %s, recipient's public spend key is %s", i, back, B)
			}
			if !P.CheckKey() {
				t.Fatalf("index %d: derived one-time key %s is not a valid key", i, P)
			}
			return *P
		}
		P := derive(i)
		others := []uint64{i + 1, i + 1<<32, i ^ 1<<31, vpC32GenIndex(t, "j")}
		for _, j := range others {
			if j == i {
				continue
			}
			if Q := derive(j); Q == P {
				t.Fatalf("indexes %d and %d give the same one-time key %s", i, j, P)
			}
		}
		col.Case(fmt.Sprintf("%x|%d", base, i), i != 0, vpC32IndexClass(i))
		col.Sample(map[string]any{"index": i, "one_time_key": P.String()})
	})
}

func vpC32Mask(t *rapid.T) (uint64, string) {
	switch rapid.IntRange(0, 5).Draw(t, "mask_kind") {
	case 0:
		return 0, "mask=0"
	case 1:
		return rapid.Uint64Range(1, 0xffff).Draw(t, "mask_small"), "mask-small"
	case 2:
		return uint64(1) << uint(rapid.IntRange(0, 63).Draw(t, "mask_bit")), "mask-one-bit"
	case 3:
		return rapid.Uint64().Draw(t, "mask_hi") | 1<<63, "mask-high-bit"
	case 4:
		return ^uint64(0), "mask-all"
	default:
		return rapid.Uint64().Draw(t, "mask"), "mask-random"
	}
}

// TestVP_C32_codec: String / JSON round trips of Key, Hash, Signature and CosiSignature.
func TestVP_C32_codec(t *testing.T) {
	col := kit.New(t, "C32", "rapid: arbitrary 32/64-byte values (zero, 0xff.., leading zero bytes, random) and CoSi masks (0, small, single bit, high bit, all ones, random); oracle: FromString(String(v)) == v, Unmarshal(Marshal(v)) == v (also inside a struct and through a pointer), JSON text is the quoted String; non-trivial = value with a leading zero byte or a mask below 2^60 or with bit 63; distinct by value")
	col.Require("mask=0", "mask-small", "mask-high-bit", "mask-all", "mask-one-bit", "leading-zero-byte", "all-zero", "all-ff")
	kit.SetChecks(kit.N(1500, 60000))
	rapid.Check(t, func(t *rapid.T) {
		raw := vpSeed(t, 128, "raw")
		classes := []string{}
		switch rapid.IntRange(0, 7).Draw(t, "shape") {
		case 0:
			for i := range raw {
				raw[i] = 0
			}
			classes = append(classes, "all-zero", "leading-zero-byte")
		case 1:
			for i := range raw {
				raw[i] = 0xff
			}
			classes = append(classes, "all-ff")
		case 2:
			raw[0], raw[32], raw[64] = 0, 0, 0
			classes = append(classes, "leading-zero-byte")
		case 3:
			d := vpHashFromTag(raw, "spread", 0)
			e := vpHashFromTag(raw, "spread", 1)
			copy(raw, append(append(append(d[:], e[:]...), d[:]...), e[:]...))
		}
		var k Key
		var h Hash
		var s Signature
		copy(k[:], raw[:32])
		copy(h[:], raw[32:64])
		copy(s[:], raw[64:128])
		mask, mclass := vpC32Mask(t)
		classes = append(classes, mclass)
		cs := CosiSignature{Signature: s, Mask: mask}

		// Key
		if got, err := KeyFromString(k.String()); err != nil || got != k {
			t.Fatalf("KeyFromString(%q) = %s, %v", k.String(), got, err)
		}
		if len(k.String()) != 64 || strings.ToLower(k.String()) != k.String() {
			t.Fatalf("Key.String() = %q", k.String())
		}
		js, err := json.Marshal(k)
		if err != nil || string(js) != `"`+k.String()+`"` {
			t.Fatalf("Key JSON = %s, %v", js, err)
		}
		var k2 Key
		if err := json.Unmarshal(js, &k2); err != nil || k2 != k {
			t.Fatalf("Key JSON round trip: %s -> %s, %v", js, k2, err)
		}
		// Hash
		if got, err := HashFromString(h.String()); err != nil || got != h {
			t.Fatalf("HashFromString(%q) = %s, %v", h.String(), got, err)
		}
		js, err = json.Marshal(h)
		if err != nil || string(js) != `"`+h.String()+`"` {
			t.Fatalf("Hash JSON = %s, %v", js, err)
		}
		var h2 Hash
		if err := json.Unmarshal(js, &h2); err != nil || h2 != h {
			t.Fatalf("Hash JSON round trip: %s -> %s, %v", js, h2, err)
		}
		// Signature
		js, err = json.Marshal(s)
		if err != nil || string(js) != `"`+s.String()+`"` || len(s.String()) != 128 {
			t.Fatalf("Signature JSON = %s, %v", js, err)
		}
		var s2 Signature
		if err := json.Unmarshal(js, &s2); err != nil || s2 != s {
			t.Fatalf("Signature JSON round trip: %s -> %s, %v", js, s2, err)
		}
		// CosiSignature
		js, err = json.Marshal(cs)
		if err != nil || string(js) != `"`+cs.String()+`"` {
			t.Fatalf("CosiSignature JSON = %s, %v", js, err)
		}
		var cs2 CosiSignature
		if err := json.Unmarshal(js, &cs2); err != nil {
			t.Fatalf("CosiSignature with mask %x printed as %s is not parsed back: %v", mask, js, err)
		}
		if cs2.Signature != cs.Signature || cs2.Mask != cs.Mask {
			t.Fatalf("CosiSignature JSON round trip: mask %x -> %x, signature equal = %v", cs.Mask, cs2.Mask, cs2.Signature == cs.Signature)
		}
		if cs2.String() != cs.String() {
			t.Fatalf("CosiSignature prints %s, after a round trip %s", cs, cs2)
		}
		// inside a struct, through pointers
		type wrap struct {
			K  Key            `json:"k"`
			H  *Hash          `json:"h"`
			S  *Signature     `json:"s"`
			C  *CosiSignature `json:"c"`
			KS []Key          `json:"ks"`
		}
		w := wrap{K: k, H: &h, S: &s, C: &cs, KS: []Key{k, {}}}
		js, err = json.Marshal(w)
		if err != nil {
			t.Fatalf("struct JSON: %v", err)
		}
		var w2 wrap
		if err := json.Unmarshal(js, &w2); err != nil {
			t.Fatalf("struct JSON %s not parsed back: %v", js, err)
		}
		if w2.K != k || *w2.H != h || *w2.S != s || w2.C.Mask != mask || w2.C.Signature != s || len(w2.KS) != 2 || w2.KS[0] != k || w2.KS[1] != (Key{}) {
			t.Fatalf("struct JSON round trip changed a value: %s", js)
		}
		nt := raw[0] == 0 || mask < 1<<60 || mask>>63 == 1
		col.Case(fmt.Sprintf("%x|%x", raw, mask), nt, classes...)
		col.Sample(map[string]any{"cosi": cs.String()})
	})
}
