//go:build verif

package crypto

import (
	"bytes"
	"errors"
	"fmt"
	"strings"
	"sync"
	"testing"
	"time"

	"filippo.io/edwards25519"
	"pgregory.net/rapid"
	kit "verifkit"
)

// vpC12Challenge is one collective-signing challenge the nonce owner may be asked to answer.
type vpC12Challenge struct {
	commitments map[int]*Key // aggregated commitment set (always holds the owner's commitment at index me)
	publics     []*Key
	message     Hash
	shared      *CosiSignature // one object shared by every request that does not build its own
	ref         [32]byte       // challenge scalar computed with the library only
	group       int            // challenges with equal scalar share a group
	kind        string
}

type vpC12Request struct {
	challenge int  // index into the challenge list, -1 = uncomputable challenge (mask index outside the key vector)
	fresh     bool // build a separate, equal CosiSignature object for this request
	handle    int  // 0 original pointer, 1 pointer copy, 2 value copy, 3 copy of a copy
	worker    int
}

type vpC12Result struct {
	req      vpC12Request
	resp     *[32]byte
	err      error
	panicked bool
}

type vpC12Case struct {
	private Key
	publics []*Key
	me      int
	nonce   *CosiNonce
	R       Key // owner's commitment
	chs     []*vpC12Challenge
	groups  int
	reqs    []vpC12Request
	workers int
	fp      string
}

func vpC12Build(sig map[int]*Key) *CosiSignature {
	cp := make(map[int]*Key, len(sig))
	for i, k := range sig {
		kk := *k
		cp[i] = &kk
	}
	cosi, err := CosiAggregateCommitment(cp)
	if err != nil {
		panic(fmt.Sprintf("harness: commitment aggregation failed: %v", err))
	}
	return cosi
}

// vpC12RefChallenge recomputes H(sum R_i || sum A_i || m) with library arithmetic.
func vpC12RefChallenge(publics []*Key, commitments map[int]*Key, message Hash) [32]byte {
	var idx []int
	for i := 0; i < 64; i++ {
		if commitments[i] != nil {
			idx = append(idx, i)
		}
	}
	R := edwards25519.NewIdentityPoint()
	for _, i := range idx {
		p, err := vpRefPoint(commitments[i][:])
		if err != nil {
			panic(err)
		}
		R.Add(R, p)
	}
	A, err := vpRefSum(publics, idx)
	if err != nil {
		panic(err)
	}
	var out [32]byte
	copy(out[:], vpRefChallenge(R.Bytes(), A.Bytes(), message[:]).Bytes())
	return out
}

func vpC12Gen(t *rapid.T, maxWorkers int) *vpC12Case {
	base := vpSeed(t, 16, "seed")
	n := rapid.IntRange(2, 16).Draw(t, "keys")
	me := rapid.IntRange(0, n-1).Draw(t, "me")
	c := &vpC12Case{me: me}
	privs := make([]Key, n)
	pubs := make([]Key, n)
	for i := range privs {
		privs[i] = vpKeyFromTag(base, "key", i)
		pubs[i] = privs[i].Public()
	}
	c.private = privs[me]
	c.publics = vpKeyPtrs(pubs)
	rnd := vpHashFromTag(base, "nonce", 0)
	rnd2 := vpHashFromTag(base, "nonce", 1)
	c.nonce = CosiCommitNonce(bytes.NewReader(append(rnd[:], rnd2[:]...)))
	c.R = c.nonce.Public()

	nch := rapid.IntRange(2, 4).Draw(t, "challenges")
	// the first challenge: random mask containing me
	baseMask := rapid.Uint64().Draw(t, "mask") & (uint64(1)<<uint(n) - 1)
	baseMask |= uint64(1) << uint(me)
	if baseMask == uint64(1)<<uint(me) && rapid.IntRange(0, 3).Draw(t, "solo") != 0 {
		baseMask |= uint64(1) << uint((me+1)%n)
	}
	mkCommit := func(mask uint64, gen int) map[int]*Key {
		m := map[int]*Key{}
		for _, i := range vpMaskIndexes(mask) {
			if i == me {
				r := c.R
				m[i] = &r
				continue
			}
			k := vpKeyFromTag(base, fmt.Sprintf("peer-nonce-%d", gen), i).Public()
			m[i] = &k
		}
		return m
	}
	msg0 := vpHashFromTag(base, "msg", 0)
	for j := 0; j < nch; j++ {
		ch := &vpC12Challenge{publics: c.publics, message: msg0}
		kind := "first"
		mask := baseMask
		gen := 0
		if j > 0 {
			kind = rapid.SampledFrom([]string{"peer-commitment", "mask", "message", "same"}).Draw(t, fmt.Sprintf("kind%d", j))
			switch kind {
			case "peer-commitment":
				gen = j
				if mask == uint64(1)<<uint(me) {
					mask |= uint64(1) << uint((me+1)%n)
				}
			case "mask":
				flip := rapid.IntRange(0, n-1).Draw(t, fmt.Sprintf("flip%d", j))
				if flip == me {
					flip = (me + 1) % n
				}
				mask ^= uint64(1) << uint(flip)
			case "message":
				ch.message = vpHashFromTag(base, "msg", j)
			case "same":
			}
		}
		ch.kind = kind
		ch.commitments = mkCommit(mask, gen)
		ch.shared = vpC12Build(ch.commitments)
		ch.ref = vpC12RefChallenge(ch.publics, ch.commitments, ch.message)
		ch.group = -1
		for g, prev := range c.chs {
			if prev.ref == ch.ref {
				ch.group = c.chs[g].group
				break
			}
		}
		if ch.group < 0 {
			ch.group = c.groups
			c.groups++
		}
		c.chs = append(c.chs, ch)
	}

	c.workers = rapid.IntRange(1, maxWorkers).Draw(t, "workers")
	nreq := rapid.IntRange(4, 64).Draw(t, "requests")
	for i := 0; i < nreq; i++ {
		r := vpC12Request{
			challenge: rapid.IntRange(0, nch-1).Draw(t, "rc"),
			fresh:     rapid.Bool().Draw(t, "fresh"),
			handle:    rapid.IntRange(0, 3).Draw(t, "handle"),
			worker:    rapid.IntRange(0, c.workers-1).Draw(t, "worker"),
		}
		if rapid.IntRange(0, 24).Draw(t, "bad") == 0 {
			r.challenge = -1
		}
		c.reqs = append(c.reqs, r)
	}
	c.fp = vpHex(base) + fmt.Sprintf("|%d|%d|%x|%v", n, me, baseMask, c.reqs)
	return c
}

// vpC12Handles returns the ways a caller can hold the nonce: the pointer it got
// from CosiCommitNonce, another pointer to it, a struct copy, a copy of the copy.
func vpC12Handles(n *CosiNonce) [4]*CosiNonce {
	p := n
	v := *n
	w := v
	return [4]*CosiNonce{n, p, &v, &w}
}

func (c *vpC12Case) do(h [4]*CosiNonce, r vpC12Request) vpC12Result {
	private := c.private
	if r.challenge < 0 {
		// mask refers to an index outside the (shortened) key vector: no challenge exists
		ch := c.chs[0]
		top := vpMaskIndexes(ch.shared.Mask)
		short := c.publics[:top[len(top)-1]]
		resp, err := h[r.handle].Response(vpC12Build(ch.commitments), &private, short, ch.message)
		return vpC12Result{req: r, resp: resp, err: err}
	}
	ch := c.chs[r.challenge]
	sig := ch.shared
	if r.fresh {
		sig = vpC12Build(ch.commitments)
	}
	resp, err := h[r.handle].Response(sig, &private, ch.publics, ch.message)
	return vpC12Result{req: r, resp: resp, err: err}
}

// vpC12Judge applies the oracle to the complete result list.
func vpC12Judge(c *vpC12Case, results []vpC12Result, firstWins bool) error {
	winner := -1
	var first *vpC12Result
	for i := range results {
		r := &results[i]
		if r.panicked {
			return fmt.Errorf("request %d: Response panicked: %v", i, r.err)
		}
		if r.req.challenge < 0 {
			if r.err == nil || r.resp != nil {
				return fmt.Errorf("request %d: response produced although the mask points outside the key vector", i)
			}
			continue // any refusal is fine: no challenge exists for this request
		}
		ch := c.chs[r.req.challenge]
		if r.err == nil {
			if r.resp == nil {
				return fmt.Errorf("request %d: nil response without error", i)
			}
			if first == nil {
				first = r
				winner = ch.group
				continue
			}
			if ch.group != winner {
				// two answers for two different challenges: recover the private key to show the damage
				c1 := c.chs[first.req.challenge].ref
				c2 := ch.ref
				msg := fmt.Sprintf("request %d: nonce answered two different challenges %x and %x", i, c1[:8], c2[:8])
				if a := vpC12Recover(first.resp, r.resp, c1, c2); a != nil && *a == c.private {
					msg += " (private key recovered from the two responses)"
				}
				return errors.New(msg)
			}
			if *r.resp != *first.resp {
				return fmt.Errorf("request %d: same challenge, different response %x vs %x", i, r.resp[:8], first.resp[:8])
			}
		}
	}
	if first == nil {
		for i := range results {
			if results[i].req.challenge >= 0 {
				return fmt.Errorf("no request succeeded on a fresh nonce (request %d: %v)", i, results[i].err)
			}
		}
		return nil // only uncomputable challenges were requested
	}
	if firstWins {
		for i := range results {
			if results[i].req.challenge >= 0 {
				if g := c.chs[results[i].req.challenge].group; g != winner {
					return fmt.Errorf("sequential order: first computable request %d (group %d) did not bind the nonce (bound group %d)", i, g, winner)
				}
				break
			}
		}
	}
	for i := range results {
		r := &results[i]
		if r.req.challenge < 0 {
			continue
		}
		ch := c.chs[r.req.challenge]
		if ch.group == winner {
			if r.err != nil {
				return fmt.Errorf("request %d: repeat of the bound challenge refused: %v", i, r.err)
			}
			continue
		}
		if r.err == nil {
			return fmt.Errorf("request %d: different challenge answered", i)
		}
		if !errors.Is(r.err, ErrCosiNonceReuse) {
			return fmt.Errorf("request %d: different challenge refused with %v, want the nonce-reuse error", i, r.err)
		}
		if r.resp != nil {
			return fmt.Errorf("request %d: response returned together with the nonce-reuse error", i)
		}
	}
	// the response is a valid share: s*B == R + c*A_me (library arithmetic)
	wch := c.chs[first.req.challenge]
	s, err := vpRefScalar(first.resp[:])
	if err != nil {
		return fmt.Errorf("response is not a canonical scalar: %v", err)
	}
	cs, _ := vpRefScalar(wch.ref[:])
	A, _ := vpRefPoint(c.publics[c.me][:])
	Rp, _ := vpRefPoint(c.R[:])
	right := edwards25519.NewIdentityPoint().ScalarMult(cs, A)
	right.Add(right, Rp)
	if edwards25519.NewIdentityPoint().ScalarBaseMult(s).Equal(right) != 1 {
		return fmt.Errorf("response does not satisfy s*B = R + c*A for the bound challenge")
	}
	if err := vpC12Build(wch.commitments).VerifyResponse(wch.publics, c.me, first.resp, wch.message); err != nil {
		return fmt.Errorf("VerifyResponse rejects the nonce's response: %v", err)
	}
	return nil
}

// vpC12Recover computes (s1-s2)/(c1-c2).
func vpC12Recover(s1, s2 *[32]byte, c1, c2 [32]byte) *Key {
	a1, e1 := vpRefScalar(s1[:])
	a2, e2 := vpRefScalar(s2[:])
	b1, e3 := vpRefScalar(c1[:])
	b2, e4 := vpRefScalar(c2[:])
	if e1 != nil || e2 != nil || e3 != nil || e4 != nil {
		return nil
	}
	ds := edwards25519.NewScalar().Subtract(a1, a2)
	dc := edwards25519.NewScalar().Subtract(b1, b2)
	if dc.Equal(edwards25519.NewScalar()) == 1 {
		return nil
	}
	a := edwards25519.NewScalar().Multiply(ds, edwards25519.NewScalar().Invert(dc))
	var k Key
	copy(k[:], a.Bytes())
	return &k
}

func vpC12Classes(c *vpC12Case) (classes []string, distinctChallenges int, copies int) {
	seenG := map[int]bool{}
	seenH := map[int]bool{}
	bad := false
	for _, r := range c.reqs {
		seenH[r.handle] = true
		if r.challenge < 0 {
			bad = true
			continue
		}
		seenG[c.chs[r.challenge].group] = true
	}
	if len(seenG) >= 2 {
		classes = append(classes, "different-challenges")
	}
	if len(seenG) >= 3 {
		classes = append(classes, "three-or-more-challenges")
	}
	if len(seenH) >= 2 {
		classes = append(classes, "handle-copies")
	}
	if bad {
		classes = append(classes, "uncomputable-challenge")
	}
	for _, ch := range c.chs[1:] {
		classes = append(classes, "variant-"+ch.kind)
	}
	dup := map[int]int{}
	for _, r := range c.reqs {
		if r.challenge >= 0 {
			dup[c.chs[r.challenge].group]++
		}
	}
	for _, v := range dup {
		if v >= 2 {
			classes = append(classes, "repeated-challenge")
			break
		}
	}
	return classes, len(seenG), len(seenH)
}

// vpC12Watchdog bounds one Response call (microseconds of arithmetic); it is
// generous enough for a machine with every core busy.
const vpC12Watchdog = 20 * time.Second

func vpC12Brief(rs []vpC12Result) string {
	var sb strings.Builder
	for _, r := range rs {
		switch {
		case r.err == nil:
			fmt.Fprintf(&sb, "c%d:ok ", r.req.challenge)
		case errors.Is(r.err, ErrCosiNonceReuse):
			fmt.Fprintf(&sb, "c%d:reuse ", r.req.challenge)
		default:
			fmt.Fprintf(&sb, "c%d:err ", r.req.challenge)
		}
	}
	return sb.String()
}

// TestVP_C12_seq owns the order: the request list is executed one call after the
// other in the drawn order (every call-granularity interleaving of the workers is
// some such order), through the original handle and copies of it.
func TestVP_C12_seq(t *testing.T) {
	c := kit.New(t, "C12", "rapid: 2..16 keys, one fresh nonce, 2..4 challenges differing in peer commitments / mask / message (or equal), 4..64 Response calls in a drawn sequential order over the handle and pointer/struct copies; oracle: all successes share one challenge and one byte-identical response, every other challenge gets ErrCosiNonceReuse, response satisfies s*B=R+c*A; non-trivial = >=2 different challenges requested through >=2 handle copies; distinct by seed+request list")
	c.Require("different-challenges", "handle-copies", "repeated-challenge", "variant-peer-commitment", "variant-mask", "variant-message", "caller-wiped-response")
	c.Assume("each Response call is treated as atomic in this variant; the -race unit probes that assumption with real goroutines")
	kit.SetChecks(kit.N(1500, 60000))
	rapid.Check(t, func(t *rapid.T) {
		cs := vpC12Gen(t, 1)
		h := vpC12Handles(cs.nonce)
		results := make([]vpC12Result, 0, len(cs.reqs))
		for i, r := range cs.reqs {
			// every request returns: an answer, the reuse error, or another error. A
			// request that never returns (a lock left behind by an earlier refusal)
			// takes the identical-repeat guarantee away just as a wrong answer does.
			done := make(chan vpC12Result, 1)
			go func() { done <- cs.do(h, r) }()
			var res vpC12Result
			select {
			case res = <-done:
			case <-time.After(vpC12Watchdog):
				t.Fatalf("request %d of %d (challenge %d through handle copy %d) did not return within %v; earlier results: %s", i, len(cs.reqs), r.challenge, r.handle, vpC12Watchdog, vpC12Brief(results))
			}
			if res.resp != nil && (i+int(res.resp[0]))%2 == 0 {
				// the caller is done with the response it was handed and wipes its
				// buffer; later answers for the same challenge must not be affected
				kept := *res.resp
				for j := range res.resp {
					res.resp[j] = 0
				}
				res.resp = &kept
				c.Class("caller-wiped-response")
			}
			results = append(results, res)
		}
		if err := vpC12Judge(cs, results, true); err != nil {
			t.Fatalf("%v", err)
		}
		classes, nd, nh := vpC12Classes(cs)
		c.Case(cs.fp, nd >= 2 && nh >= 2, classes...)
		c.Sample(map[string]any{"keys": len(cs.publics), "challenges": len(cs.chs), "distinct": cs.groups, "requests": len(cs.reqs)})
	})
}

func vpC12RunConcurrent(cs *vpC12Case) []vpC12Result {
	h := vpC12Handles(cs.nonce)
	per := make([][]vpC12Request, cs.workers)
	for _, r := range cs.reqs {
		per[r.worker] = append(per[r.worker], r)
	}
	out := make([][]vpC12Result, cs.workers)
	start := make(chan struct{})
	var wg sync.WaitGroup
	for w := 0; w < cs.workers; w++ {
		wg.Add(1)
		go func(w int) {
			defer wg.Done()
			// every worker may also take its own struct copy of the handle
			own := *h[0]
			local := h
			if w%2 == 1 {
				local[2] = &own
			}
			<-start
			for _, r := range per[w] {
				r := r
				var res vpC12Result
				if p := vpCatch(func() { res = cs.do(local, r) }); p != nil {
					res = vpC12Result{req: r, err: fmt.Errorf("panic: %v", p), panicked: true}
				}
				out[w] = append(out[w], res)
			}
		}(w)
	}
	close(start)
	finished := make(chan struct{})
	go func() { wg.Wait(); close(finished) }()
	select {
	case <-finished:
	case <-time.After(vpC12Watchdog + time.Duration(len(cs.reqs))*time.Second):
		return nil // some request never returned
	}
	var results []vpC12Result
	for _, o := range out {
		results = append(results, o...)
	}
	return results
}

// TestVP_C12_race_goroutines runs the same request lists on 1..16 real goroutines
// released by a start barrier; built with -race, so an unsynchronised access in
// the nonce is reported by the detector (the driver maps that to a violation).
func TestVP_C12_race_goroutines(t *testing.T) {
	c := kit.New(t, "C12", "rapid + real goroutines (-race): same generator as the sequential variant, requests spread over 1..16 goroutines behind a start barrier, handle copies per goroutine; oracle as sequential except that any challenge may win; non-trivial = >=2 different challenges and >=2 goroutines; distinct by seed+request list")
	c.Require("different-challenges", "goroutines>=2", "handle-copies")
	kit.SetChecks(kit.N(400, 20000))
	rapid.Check(t, func(t *rapid.T) {
		cs := vpC12Gen(t, 16)
		results := vpC12RunConcurrent(cs)
		if results == nil && len(cs.reqs) > 0 {
			t.Fatalf("a request on the shared nonce never returned (%d requests on %d goroutines)", len(cs.reqs), cs.workers)
		}
		if len(results) != len(cs.reqs) {
			t.Fatalf("lost results: %d of %d", len(results), len(cs.reqs))
		}
		if err := vpC12Judge(cs, results, false); err != nil {
			t.Fatalf("%v", err)
		}
		classes, nd, _ := vpC12Classes(cs)
		used := map[int]bool{}
		for _, r := range cs.reqs {
			used[r.worker] = true
		}
		if len(used) >= 2 {
			classes = append(classes, "goroutines>=2")
		}
		if len(used) >= 8 {
			classes = append(classes, "goroutines>=8")
		}
		c.Case(cs.fp, nd >= 2 && len(used) >= 2, classes...)
		c.Sample(map[string]any{"keys": len(cs.publics), "distinct": cs.groups, "requests": len(cs.reqs), "goroutines": len(used)})
	})
}

// TestVP_C12_race_tight is a count-bounded tight loop: two to four goroutines,
// each asking a fresh nonce for a different challenge exactly once at the same
// moment (the shape that exposes a check-then-act window best).
func TestVP_C12_race_tight(t *testing.T) {
	c := kit.New(t, "C12", "deterministic loop (-race): per iteration a fresh nonce and 2..4 goroutines each requesting a different challenge once behind a barrier; exactly one may succeed; non-trivial = every iteration; distinct by iteration seed")
	n := kit.N(3000, 200000)
	base := []byte(fmt.Sprintf("tight-%d", kit.Seed()))
	privs := make([]Key, 4)
	pubs := make([]Key, 4)
	for i := range privs {
		privs[i] = vpKeyFromTag(base, "key", i)
		pubs[i] = privs[i].Public()
	}
	publics := vpKeyPtrs(pubs)
	for it := 0; it < n; it++ {
		g := 2 + it%3
		rnd := vpHashFromTag(base, "nonce-a", it)
		rnd2 := vpHashFromTag(base, "nonce-b", it)
		nonce := CosiCommitNonce(bytes.NewReader(append(rnd[:], rnd2[:]...)))
		R := nonce.Public()
		sigs := make([]*CosiSignature, g)
		msg := vpHashFromTag(base, "msg", it)
		for j := range sigs {
			peer := vpKeyFromTag(base, fmt.Sprintf("peer-%d", j), it).Public()
			r := R
			sigs[j] = vpC12Build(map[int]*Key{0: &r, 1: &peer})
		}
		type res struct {
			resp *[32]byte
			err  error
		}
		out := make([]res, g)
		start := make(chan struct{})
		var wg sync.WaitGroup
		for j := 0; j < g; j++ {
			wg.Add(1)
			go func(j int) {
				defer wg.Done()
				h := *nonce
				private := privs[0]
				<-start
				if p := vpCatch(func() {
					r, err := h.Response(sigs[j], &private, publics, msg)
					out[j] = res{r, err}
				}); p != nil {
					out[j] = res{nil, fmt.Errorf("panic: %v", p)}
				}
			}(j)
		}
		close(start)
		wg.Wait()
		ok := 0
		for j, r := range out {
			if r.err == nil {
				ok++
				if err := sigs[j].VerifyResponse(publics, 0, r.resp, msg); err != nil {
					t.Fatalf("iteration %d: winning response invalid: %v", it, err)
				}
			} else if !errors.Is(r.err, ErrCosiNonceReuse) || r.resp != nil {
				t.Fatalf("iteration %d: goroutine %d refused with %v / %v", it, j, r.err, r.resp)
			}
		}
		if ok != 1 {
			t.Fatalf("iteration %d: %d of %d different challenges answered by one nonce", it, ok, g)
		}
		c.Case(fmt.Sprintf("%s-%d", base, it), true, fmt.Sprintf("goroutines=%d", g))
	}
}
