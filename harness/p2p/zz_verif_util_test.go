//go:build verif

package p2p

import (
	"encoding/binary"
	"fmt"

	"filippo.io/edwards25519"
	"github.com/MixinNetwork/mixin/crypto"
	"pgregory.net/rapid"
)

// vpCatch runs f and returns the recovered panic value (nil when f returned).
func vpCatch(f func()) (p any) {
	defer func() {
		if r := recover(); r != nil {
			p = fmt.Sprint(r)
			if p == "" {
				p = "panic"
			}
		}
	}()
	f()
	return nil
}

// vpHash draws 32 arbitrary bytes as a crypto.Hash.
func vpHash(t *rapid.T, label string) crypto.Hash {
	var h crypto.Hash
	copy(h[:], rapid.SliceOfN(rapid.Byte(), 32, 32).Draw(t, label))
	return h
}

// vpSeed64 draws 64 seed bytes; every key of a case is derived from such a seed.
func vpSeed64(t *rapid.T, label string) []byte {
	return rapid.SliceOfN(rapid.Byte(), 64, 64).Draw(t, label)
}

// vpDeriveKey derives the i-th private scalar from a drawn seed.
func vpDeriveKey(seed []byte, i int) crypto.Key {
	var ib [8]byte
	binary.BigEndian.PutUint64(ib[:], uint64(i))
	h1 := crypto.Blake3Hash(append(append([]byte("vp-key-a"), ib[:]...), seed...))
	h2 := crypto.Blake3Hash(append(append([]byte("vp-key-b"), ib[:]...), seed...))
	return crypto.NewKeyFromSeed(append(h1[:], h2[:]...))
}

// vpDerivePoint derives the i-th prime-order public point from a drawn seed.
func vpDerivePoint(seed []byte, i int) crypto.Key {
	return vpDeriveKey(seed, i).Public()
}

// vpGroupOrderMinusOne is L-1 where L is the order of the prime-order subgroup.
var vpGroupOrderMinusOne = func() *edwards25519.Scalar {
	// L = 2^252 + 27742317777372353535851937790883648493, little endian, minus one
	b := [32]byte{0xec, 0xd3, 0xf5, 0x5c, 0x1a, 0x63, 0x12, 0x58, 0xd6, 0x9c, 0xf7, 0xa2, 0xde, 0xf9, 0xde, 0x14,
		0, 0, 0, 0, 0, 0, 0, 0, 0, 0, 0, 0, 0, 0, 0, 0x10}
	s, err := edwards25519.NewScalar().SetCanonicalBytes(b[:])
	if err != nil {
		panic(err)
	}
	return s
}()

// vpRefPointValid is an independent reference for "canonical encoding of a
// non-identity point of the prime-order subgroup": decodes with the curve
// library, requires the encoding to be the canonical one, the point not to be
// the identity and [L]P = identity (computed as [L-1]P + P).
func vpRefPointValid(b []byte) bool {
	if len(b) != 32 {
		return false
	}
	p, err := edwards25519.NewIdentityPoint().SetBytes(b)
	if err != nil {
		return false
	}
	enc := p.Bytes()
	for i := range enc {
		if enc[i] != b[i] {
			return false
		}
	}
	id := edwards25519.NewIdentityPoint()
	if p.Equal(id) == 1 {
		return false
	}
	q := edwards25519.NewIdentityPoint().ScalarMult(vpGroupOrderMinusOne, p)
	q.Add(q, p)
	return q.Equal(id) == 1
}
