//go:build verif

package p2p

// C30, the receiving side of a handshake. kernel.Node.AuthenticateAs is judged
// by the kernel unit; this unit judges what the Peer asks of it: a consumer's
// first frame goes through the real authenticateNeighbor (framing parser,
// message type, hand-over to the node) with a reference node behind the handle
// that decides by the statement alone - signed by the named key, addressed to
// the recipient the Peer passes, inside the freshness window the Peer passes,
// not from the recipient itself. Whatever recipient or window the Peer hands
// over therefore shows in which handshakes are accepted.

import (
	"encoding/binary"
	"errors"
	"fmt"
	"net"
	"testing"
	"time"

	"github.com/MixinNetwork/mixin/crypto"
	"github.com/dgraph-io/ristretto/v2"
	"pgregory.net/rapid"
	kit "verifkit"
)

const vpC30hGuard = 2 // seconds kept between a generated timestamp and the edge of the window

// vpC30hNode is the reference receiver node (only what a handshake needs).
type vpC30hNode struct {
	SyncHandle
	network crypto.Hash
	calls   int
	lastTo  crypto.Hash
}

func (n *vpC30hNode) GetCacheStore() *ristretto.Cache[[]byte, any] { return nil }

func vpC30hPeerId(spend crypto.Key, network crypto.Hash) crypto.Hash {
	seed := crypto.Sha256Hash(spend[:])
	view := crypto.NewKeyFromSeed(append(seed[:], seed[:]...)).Public()
	ah := crypto.Sha256Hash(append(append([]byte{}, spend[:]...), view[:]...))
	return crypto.Blake3Hash(append(append([]byte{}, network[:]...), ah[:]...))
}

func (n *vpC30hNode) AuthenticateAs(recipientId crypto.Hash, msg []byte, timeoutSec int64) (*AuthToken, error) {
	n.calls++
	n.lastTo = recipientId
	if len(msg) != 137 {
		return nil, fmt.Errorf("reference: length %d", len(msg))
	}
	ts := binary.BigEndian.Uint64(msg[:8])
	if timeoutSec > 0 {
		now := time.Now().Unix()
		if ts > 1<<62 || int64(ts) < now-timeoutSec || int64(ts) > now+timeoutSec {
			return nil, fmt.Errorf("reference: timestamp %d outside %d +- %d", ts, now, timeoutSec)
		}
	}
	var to crypto.Hash
	copy(to[:], msg[8:40])
	if to != recipientId {
		return nil, fmt.Errorf("reference: addressed to %s", to)
	}
	var key crypto.Key
	copy(key[:], msg[40:72])
	id := vpC30hPeerId(key, n.network)
	if id == recipientId {
		return nil, errors.New("reference: from the recipient itself")
	}
	var sig crypto.Signature
	copy(sig[:], msg[73:])
	if !key.Verify(crypto.Blake3Hash(msg[:73]), sig) {
		return nil, errors.New("reference: signature")
	}
	return &AuthToken{PeerId: id, Timestamp: ts, IsRelayer: msg[72] == 1, Data: msg}, nil
}

type vpC30hAddr struct{}

func (vpC30hAddr) Network() string { return "udp" }
func (vpC30hAddr) String() string  { return "127.0.0.1:7" }

// vpC30hClient delivers one frame, then blocks like an idle connection.
type vpC30hClient struct {
	frame []byte
	done  chan struct{}
	given bool
}

func (c *vpC30hClient) RemoteAddr() net.Addr { return vpC30hAddr{} }
func (c *vpC30hClient) Receive() (*TransportMessage, error) {
	if c.given {
		<-c.done
		return nil, errors.New("closed")
	}
	c.given = true
	return &TransportMessage{Version: TransportMessageVersion, Size: uint32(len(c.frame)), Data: c.frame}, nil
}
func (c *vpC30hClient) Send([]byte) error { return nil }
func (c *vpC30hClient) Close(string)      {}

func TestVP_C30_handshake_window(t *testing.T) {
	c := kit.New(t, "C30", "rapid: a relayer Peer with a drawn identity receives, through the real authenticateNeighbor (frame parser, message type check, hand-over to its node), the first frame of a connecting peer: an authentication message signed by a drawn key with a drawn relayer flag, addressed to the Peer or (defect) to another node, dated now + {0, +-(10s - 2s), +-(10s + 2s), +-1 min, +-1 h, +-1 day, +-30 days, 0}; behind the handle sits a reference node that decides by the statement alone with the recipient and the freshness window the Peer hands over. Oracle: the handshake is accepted exactly when the message is addressed to the Peer and dated within the 10 s handshake window (2 s guard band around the edge); the Peer created for the neighbour carries the identity derived from the signing key and the signed relayer flag; the reference node was asked once, for the Peer's own identity. non-trivial = a correctly signed and addressed message dated outside the window; distinct by key, recipient and offset")
	c.Require("accepted", "rejected:stale-past", "rejected:stale-future", "rejected:recipient", "flag:relayer", "flag:plain")
	c.Assume("the wall clock advances less than 2 s between drawing a timestamp and the handshake reading it; a case where more than 1 s elapsed is discarded (class clock-moved)")
	kit.SetChecks(kit.N(400, 20000))
	offsets := []int64{0, 0, -(10 - vpC30hGuard), 10 - vpC30hGuard, -(10 + vpC30hGuard), 10 + vpC30hGuard, -60, 60, -3600, 3600, -86400, 86400, -30 * 86400, 30 * 86400}
	rapid.Check(t, func(t *rapid.T) {
		var network, me, elsewhere crypto.Hash
		copy(network[:], rapid.SliceOfN(rapid.Byte(), 32, 32).Draw(t, "network"))
		copy(me[:], rapid.SliceOfN(rapid.Byte(), 32, 32).Draw(t, "receiver"))
		copy(elsewhere[:], rapid.SliceOfN(rapid.Byte(), 32, 32).Draw(t, "elsewhere"))
		priv := crypto.NewKeyFromSeed(rapid.SliceOfN(rapid.Byte(), 64, 64).Draw(t, "signer_seed"))
		pub := priv.Public()
		flag := rapid.SampledFrom([]byte{0, 1}).Draw(t, "flag")
		misaddressed := rapid.IntRange(0, 4).Draw(t, "misaddressed") == 0 && elsewhere != me
		off := rapid.SampledFrom(offsets).Draw(t, "offset_s")
		zero := rapid.IntRange(0, 15).Draw(t, "zero_timestamp") == 0

		before := time.Now().Unix()
		ts := uint64(before + off)
		if zero {
			ts, off = 0, -before
		}
		to := me
		if misaddressed {
			to = elsewhere
		}
		msg := binary.BigEndian.AppendUint64(nil, ts)
		msg = append(msg, to[:]...)
		msg = append(msg, pub[:]...)
		msg = append(msg, flag)
		sig := priv.Sign(crypto.Blake3Hash(msg))
		msg = append(msg, sig[:]...)

		node := &vpC30hNode{network: network}
		peer := NewPeer(node, me, "127.0.0.1:0", true)
		client := &vpC30hClient{frame: append([]byte{PeerMessageTypeAuthentication}, msg...), done: make(chan struct{})}
		defer close(client.done)
		var nb *Peer
		var err error
		if p := vpCatch(func() { nb, err = peer.authenticateNeighbor(client) }); p != nil {
			t.Fatalf("authenticateNeighbor panicked: %v", p)
		}
		if after := time.Now().Unix(); after-before > 1 || after < before {
			c.Class("clock-moved")
			return
		}
		inside := off >= -(10-vpC30hGuard) && off <= 10-vpC30hGuard
		want := inside && !misaddressed
		desc := fmt.Sprintf("handshake dated now%+ds, addressed to %s (receiver %s), relayer flag %d", off, to, me, flag)
		if (nb != nil) != (err == nil) {
			t.Fatalf("%s: peer %v, error %v", desc, nb != nil, err)
		}
		if node.calls != 1 || node.lastTo != me {
			t.Fatalf("%s: the node was asked %d times, last for recipient %s", desc, node.calls, node.lastTo)
		}
		if (err == nil) != want {
			t.Fatalf("%s: accepted=%v, expected %v (the handshake window is %v) (%v)", desc, err == nil, want, HandshakeTimeout, err)
		}
		classes := []string{}
		if err != nil {
			switch {
			case misaddressed:
				classes = append(classes, "rejected:recipient")
			case off < 0:
				classes = append(classes, "rejected:stale-past")
			default:
				classes = append(classes, "rejected:stale-future")
			}
			c.Case(fmt.Sprintf("%x", msg), !misaddressed, classes...)
			return
		}
		if nb.IdForNetwork != vpC30hPeerId(pub, network) {
			t.Fatalf("%s: neighbour identity %s, key-derived identity %s", desc, nb.IdForNetwork, vpC30hPeerId(pub, network))
		}
		if nb.IsRelayer() != (flag == 1) {
			t.Fatalf("%s: neighbour relayer=%v", desc, nb.IsRelayer())
		}
		if nb.consumerAuth == nil || nb.consumerAuth.Timestamp != ts || string(nb.consumerAuth.Data) != string(msg) {
			t.Fatalf("%s: the neighbour does not carry the accepted message", desc)
		}
		classes = append(classes, "accepted", map[bool]string{true: "flag:relayer", false: "flag:plain"}[flag == 1])
		c.Case(fmt.Sprintf("%x", msg), off != 0, classes...)
		if off != 0 {
			c.Sample(map[string]any{"offset_s": off, "relayer_flag": flag, "accepted": true})
		}
	})
}
