//go:build verif

package p2p

import (
	"bytes"
	"encoding/binary"
	"encoding/hex"
	"fmt"
	"sort"
	"strings"
	"testing"

	"filippo.io/edwards25519"
	"github.com/MixinNetwork/mixin/common"
	"github.com/MixinNetwork/mixin/crypto"
	"github.com/dgraph-io/ristretto/v2"
	"pgregory.net/rapid"
	kit "verifkit"
)

// ---------------------------------------------------------------------------
// stub SyncHandle: only the methods builders reach are implemented; the
// embedded nil interface makes any other call an immediate (visible) panic.
// ---------------------------------------------------------------------------

type vpC08Handle struct {
	SyncHandle
	key     crypto.Key
	graph   []*SyncPoint
	relayer bool
	ts      uint64
}

func (h *vpC08Handle) GetCacheStore() *ristretto.Cache[[]byte, any] { return nil }

func (h *vpC08Handle) SignData(data []byte) crypto.Signature {
	return h.key.Sign(crypto.Blake3Hash(data))
}

func (h *vpC08Handle) BuildGraph() []*SyncPoint { return h.graph }

// same layout as kernel.Node.BuildAuthenticationMessage
func (h *vpC08Handle) BuildAuthenticationMessage(relayerId crypto.Hash) []byte {
	data := binary.BigEndian.AppendUint64(nil, h.ts)
	data = append(data, relayerId[:]...)
	pub := h.key.Public()
	data = append(data, pub[:]...)
	if h.relayer {
		data = append(data, 1)
	} else {
		data = append(data, 0)
	}
	sig := h.key.Sign(crypto.Blake3Hash(data))
	return append(data, sig[:]...)
}

// ---------------------------------------------------------------------------
// generators (small versions of G-snapshot / G-tx-structure)
// ---------------------------------------------------------------------------

func vpC08Bytes(t *rapid.T, label string, min, max int) []byte {
	return rapid.SliceOfN(rapid.Byte(), min, max).Draw(t, label)
}

func vpC08Key32(t *rapid.T, label string) crypto.Key {
	var k crypto.Key
	copy(k[:], vpC08Bytes(t, label, 32, 32))
	return k
}

func vpC08Sig(t *rapid.T, label string) crypto.Signature {
	var s crypto.Signature
	copy(s[:], vpC08Bytes(t, label, 64, 64))
	return s
}

// vpC08DerivedHashes returns n distinct pseudo-random hashes derived from a drawn base.
func vpC08DerivedHashes(base []byte, tag string, n int) []crypto.Hash {
	out := make([]crypto.Hash, n)
	for i := range out {
		var ib [4]byte
		binary.BigEndian.PutUint32(ib[:], uint32(i))
		out[i] = crypto.Blake3Hash(append(append([]byte(tag), ib[:]...), base...))
	}
	return out
}

// vpC08Count draws a list length in [min,max], biased to small values and to the upper bound.
func vpC08Count(t *rapid.T, label string, min, max int) int {
	switch rapid.IntRange(0, 9).Draw(t, label+"_cls") {
	case 0:
		return max
	case 1:
		return rapid.IntRange(min, max).Draw(t, label+"_any")
	case 2:
		lo := max - 3
		if lo < min {
			lo = min
		}
		return rapid.IntRange(lo, max).Draw(t, label+"_hi")
	default:
		hi := min + 6
		if hi > max {
			hi = max
		}
		return rapid.IntRange(min, hi).Draw(t, label+"_lo")
	}
}

func vpC08Integer(t *rapid.T, label string) common.Integer {
	switch rapid.IntRange(0, 3).Draw(t, label+"_cls") {
	case 0:
		return common.Integer{}
	case 1:
		return common.NewInteger(rapid.Uint64Range(0, 1<<40).Draw(t, label+"_u"))
	default:
		n := rapid.IntRange(1, 60).Draw(t, label+"_digits")
		ds := rapid.SliceOfN(rapid.SampledFrom([]byte("0123456789")), n, n).Draw(t, label+"_ds")
		s := strings.TrimLeft(string(ds), "0")
		for len(s) < 9 {
			s = "0" + s
		}
		return common.NewIntegerFromString(s[:len(s)-8] + "." + s[len(s)-8:])
	}
}

func vpC08GenTx(t *rapid.T, label string) *common.VersionedTransaction {
	tx := common.NewTransactionV5(vpHash(t, label+"_asset"))
	ni := rapid.IntRange(0, 3).Draw(t, label+"_ni")
	for i := 0; i < ni; i++ {
		l := fmt.Sprintf("%s_in%d", label, i)
		in := &common.Input{Hash: vpHash(t, l+"_h"), Index: uint(rapid.IntRange(0, common.InputIndexLimit).Draw(t, l+"_i"))}
		switch rapid.IntRange(0, 5).Draw(t, l+"_kind") {
		case 0:
			in.Genesis = vpC08Bytes(t, l+"_gen", 1, 40)
		case 1:
			in.Deposit = &common.DepositData{
				Chain:       vpHash(t, l+"_chain"),
				AssetKey:    string(vpC08Bytes(t, l+"_ak", 0, 40)),
				Transaction: string(vpC08Bytes(t, l+"_dt", 0, 70)),
				Index:       rapid.Uint64().Draw(t, l+"_di"),
				Amount:      vpC08Integer(t, l+"_da"),
			}
		case 2:
			in.Mint = &common.MintData{
				Group:  string(vpC08Bytes(t, l+"_mg", 0, 12)),
				Batch:  rapid.Uint64().Draw(t, l+"_mb"),
				Amount: vpC08Integer(t, l+"_ma"),
			}
		}
		tx.Inputs = append(tx.Inputs, in)
	}
	no := rapid.IntRange(0, 3).Draw(t, label+"_no")
	for i := 0; i < no; i++ {
		l := fmt.Sprintf("%s_out%d", label, i)
		o := &common.Output{
			Type: rapid.SampledFrom([]uint8{common.OutputTypeScript, common.OutputTypeWithdrawalSubmit, common.OutputTypeNodePledge,
				common.OutputTypeNodeAccept, common.OutputTypeNodeRemove, common.OutputTypeWithdrawalClaim, common.OutputTypeNodeCancel,
				common.OutputTypeCustodianUpdateNodes, common.OutputTypeCustodianSlashNodes, 0x7f}).Draw(t, l+"_type"),
			Amount: vpC08Integer(t, l+"_amt"),
			Mask:   vpC08Key32(t, l+"_mask"),
			Script: common.Script(vpC08Bytes(t, l+"_script", 0, 6)),
		}
		nk := rapid.IntRange(0, 3).Draw(t, l+"_nk")
		for j := 0; j < nk; j++ {
			k := vpC08Key32(t, fmt.Sprintf("%s_k%d", l, j))
			o.Keys = append(o.Keys, &k)
		}
		if rapid.IntRange(0, 4).Draw(t, l+"_wd") == 0 {
			o.Withdrawal = &common.WithdrawalData{Address: string(vpC08Bytes(t, l+"_wa", 0, 40)), Tag: string(vpC08Bytes(t, l+"_wt", 0, 12))}
		}
		tx.Outputs = append(tx.Outputs, o)
	}
	nr := rapid.IntRange(0, 2).Draw(t, label+"_nr")
	for i := 0; i < nr; i++ {
		tx.References = append(tx.References, vpHash(t, fmt.Sprintf("%s_ref%d", label, i)))
	}
	switch rapid.IntRange(0, 9).Draw(t, label+"_extra_cls") {
	case 0:
	case 1:
		// large extra derived from a short drawn pattern
		n := rapid.IntRange(300, 6000).Draw(t, label+"_extra_n")
		pat := vpC08Bytes(t, label+"_extra_pat", 1, 8)
		tx.Extra = bytes.Repeat(pat, n/len(pat)+1)[:n]
	default:
		tx.Extra = vpC08Bytes(t, label+"_extra", 0, 64)
	}
	signed := &common.SignedTransaction{Transaction: *tx}
	switch rapid.IntRange(0, 3).Draw(t, label+"_sigs") {
	case 0:
	case 1:
		js := &common.AggregatedSignature{Signature: vpC08Sig(t, label+"_agg")}
		ns := rapid.IntRange(0, 6).Draw(t, label+"_agg_n")
		if rapid.Bool().Draw(t, label+"_agg_sparse") {
			set := rapid.SliceOfNDistinct(rapid.IntRange(0, 0xFFFF), ns, ns, rapid.ID[int]).Draw(t, label+"_agg_sp")
			sort.Ints(set)
			js.Signers = set
		} else {
			set := rapid.SliceOfNDistinct(rapid.IntRange(0, 40), ns, ns, rapid.ID[int]).Draw(t, label+"_agg_or")
			sort.Ints(set)
			js.Signers = set
		}
		signed.AggregatedSignature = js
	default:
		nm := rapid.IntRange(1, 3).Draw(t, label+"_nm")
		for i := 0; i < nm; i++ {
			l := fmt.Sprintf("%s_sm%d", label, i)
			sm := map[uint16]*crypto.Signature{}
			idx := rapid.SliceOfNDistinct(rapid.OneOf(rapid.IntRange(0, 5), rapid.IntRange(0, 0xFFFF)), 0, 3, rapid.ID[int]).Draw(t, l+"_idx")
			for _, j := range idx {
				s := vpC08Sig(t, fmt.Sprintf("%s_s%d", l, j))
				sm[uint16(j)] = &s
			}
			signed.SignaturesMap = append(signed.SignaturesMap, sm)
		}
	}
	return signed.AsVersioned()
}

// vpC08GenTxs draws a list of n transactions (min..max) over a small pool, so
// that lists up to 255 are cheap to draw and shrink.
func vpC08GenTxs(t *rapid.T, label string, min, max int) []*common.VersionedTransaction {
	n := vpC08Count(t, label+"_n", min, max)
	if n == 0 {
		return nil
	}
	np := n
	if np > 4 {
		np = rapid.IntRange(1, 4).Draw(t, label+"_pool")
	}
	pool := make([]*common.VersionedTransaction, np)
	for i := range pool {
		pool[i] = vpC08GenTx(t, fmt.Sprintf("%s_tx%d", label, i))
	}
	txs := make([]*common.VersionedTransaction, n)
	for i := range txs {
		txs[i] = pool[i%np]
	}
	return txs
}

// sig: 0 = never, 1 = always, 2 = drawn
func vpC08GenSnapshot(t *rapid.T, label string, sig int) *common.Snapshot {
	s := &common.Snapshot{
		Version:   common.SnapshotVersionCommonEncoding,
		NodeId:    vpHash(t, label+"_node"),
		Timestamp: rapid.Uint64().Draw(t, label+"_ts"),
	}
	base := vpC08Bytes(t, label+"_txbase", 8, 8)
	if rapid.IntRange(0, 3).Draw(t, label+"_round0") == 0 {
		s.Transactions = vpC08DerivedHashes(base, "snaptx", 1)
	} else {
		s.RoundNumber = rapid.OneOf(rapid.Uint64Range(1, 10), rapid.Uint64Range(1, 1<<63)).Draw(t, label+"_round")
		s.References = &common.RoundLink{Self: vpHash(t, label+"_self"), External: vpHash(t, label+"_ext")}
		s.Transactions = vpC08DerivedHashes(base, "snaptx", vpC08Count(t, label+"_ntx", 1, common.SnapshotTransactionsMaximum))
	}
	if sig == 1 || (sig == 2 && rapid.Bool().Draw(t, label+"_signed")) {
		s.Signature = &crypto.CosiSignature{
			Signature: vpC08Sig(t, label+"_cosi"),
			Mask:      rapid.OneOf(rapid.Uint64Range(1, 255), rapid.Uint64Range(1, 1<<64-1)).Draw(t, label+"_mask"),
		}
	}
	if rapid.Bool().Draw(t, label+"_hash") {
		s.Hash = vpHash(t, label+"_hashv") // not part of the encoding
	}
	return s
}

// ---------------------------------------------------------------------------
// expected-value snapshots taken BEFORE the builder runs (builders sort the
// snapshot's transaction list in place)
// ---------------------------------------------------------------------------

type vpC08SnapWant struct {
	version    uint8
	node       crypto.Hash
	round, ts  uint64
	refs       *common.RoundLink
	txs        []crypto.Hash // sorted
	sig        *crypto.CosiSignature
	payload    crypto.Hash
	hasPayload bool
}

func vpC08WantSnapshot(s *common.Snapshot) *vpC08SnapWant {
	w := &vpC08SnapWant{version: s.Version, node: s.NodeId, round: s.RoundNumber, ts: s.Timestamp}
	if s.References != nil {
		r := *s.References
		w.refs = &r
	}
	w.txs = append([]crypto.Hash(nil), s.Transactions...)
	sort.Slice(w.txs, func(i, j int) bool { return bytes.Compare(w.txs[i][:], w.txs[j][:]) < 0 })
	if s.Signature != nil {
		w.sig = &crypto.CosiSignature{Signature: s.Signature.Signature, Mask: s.Signature.Mask}
	}
	w.payload = s.PayloadHash()
	return w
}

// wantSig: compare the snapshot's own signature field (false for the full
// challenge, where the parser moves it to msg.Cosi).
func (w *vpC08SnapWant) check(got *common.Snapshot, wantSig bool) error {
	if got == nil {
		return fmt.Errorf("parsed snapshot is nil")
	}
	if got.Version != w.version || got.NodeId != w.node || got.RoundNumber != w.round || got.Timestamp != w.ts {
		return fmt.Errorf("snapshot header differs: got v%d %s r%d t%d want v%d %s r%d t%d",
			got.Version, got.NodeId, got.RoundNumber, got.Timestamp, w.version, w.node, w.round, w.ts)
	}
	if (got.References == nil) != (w.refs == nil) || (w.refs != nil && *got.References != *w.refs) {
		return fmt.Errorf("snapshot references differ: got %v want %v", got.References, w.refs)
	}
	if len(got.Transactions) != len(w.txs) {
		return fmt.Errorf("snapshot transaction count %d want %d", len(got.Transactions), len(w.txs))
	}
	gt := append([]crypto.Hash(nil), got.Transactions...)
	sort.Slice(gt, func(i, j int) bool { return bytes.Compare(gt[i][:], gt[j][:]) < 0 })
	for i := range gt {
		if gt[i] != w.txs[i] {
			return fmt.Errorf("snapshot transaction set differs at %d: %s want %s", i, gt[i], w.txs[i])
		}
	}
	if wantSig {
		if (got.Signature == nil) != (w.sig == nil) {
			return fmt.Errorf("snapshot signature presence differs: got %v want %v", got.Signature, w.sig)
		}
		if w.sig != nil && (got.Signature.Mask != w.sig.Mask || got.Signature.Signature != w.sig.Signature) {
			return fmt.Errorf("snapshot signature differs")
		}
	} else if got.Signature != nil {
		return fmt.Errorf("snapshot signature should have been moved to the message")
	}
	cp := *got
	cp.Signature = nil
	if ph := cp.PayloadHash(); ph != w.payload {
		return fmt.Errorf("snapshot payload hash %s want %s", ph, w.payload)
	}
	return nil
}

func vpC08WantTxs(txs []*common.VersionedTransaction) [][]byte {
	out := make([][]byte, len(txs))
	for i, tx := range txs {
		out[i] = tx.Marshal()
	}
	return out
}

func vpC08CheckTxs(got []*common.VersionedTransaction, want [][]byte) error {
	if len(got) != len(want) {
		return fmt.Errorf("transaction count %d want %d", len(got), len(want))
	}
	for i := range got {
		if got[i] == nil {
			return fmt.Errorf("transaction %d is nil", i)
		}
		if !bytes.Equal(got[i].Marshal(), want[i]) {
			return fmt.Errorf("transaction %d differs", i)
		}
	}
	return nil
}

// ---------------------------------------------------------------------------
// one built message per kind, with the oracle for its parsed form
// ---------------------------------------------------------------------------

type vpC08Built struct {
	kind   string
	typ    byte
	data   []byte
	verify func(m *PeerMessage) error
	points []int // offsets of 32-byte fields the parser must validate as curve points
	signer crypto.Key
	// excludedKnown: the drawn input fell into the class of known finding C08-K1
	// (empty commitment list) and was replaced by the nearest input outside it.
	excludedKnown bool
}

var vpC08Kinds = []string{
	"authentication", "graph", "snapshot-confirm", "transaction-request", "transaction", "bundle", "finalized-bundle",
	"pre-commitments", "announcement", "commitment", "tx-challenge", "response", "full-challenge", "finalization",
	"relay", "consumers",
}

func vpC08KindClasses(prefix string) []string {
	out := make([]string, len(vpC08Kinds))
	for i, k := range vpC08Kinds {
		out[i] = prefix + k
	}
	return out
}

func vpC08VerifySig(pub crypto.Key, signed []byte, sig *crypto.Signature) error {
	if sig == nil {
		return fmt.Errorf("parsed signature is nil")
	}
	if !pub.Verify(crypto.Blake3Hash(signed), *sig) {
		return fmt.Errorf("parsed signature does not verify under the signer key over the parsed unsigned bytes")
	}
	return nil
}

func vpC08GenHandle(t *rapid.T, seed []byte) *vpC08Handle {
	return &vpC08Handle{key: vpDeriveKey(seed, 0), relayer: rapid.Bool().Draw(t, "h_relayer"), ts: rapid.Uint64().Draw(t, "h_ts")}
}

func vpC08Build(t *rapid.T, kind string, allowRelay bool) *vpC08Built {
	seed := vpSeed64(t, "seed")
	h := vpC08GenHandle(t, seed)
	pub := h.key.Public()
	b := &vpC08Built{kind: kind, signer: pub}
	switch kind {
	case "authentication":
		rid := vpHash(t, "relayer_id")
		auth := h.BuildAuthenticationMessage(rid)
		b.typ, b.data = PeerMessageTypeAuthentication, buildAuthenticationMessage(auth)
		want := append([]byte(nil), auth...)
		b.verify = func(m *PeerMessage) error {
			if !bytes.Equal(m.Data, want) {
				return fmt.Errorf("authentication payload differs")
			}
			if len(m.Data) != 137 || binary.BigEndian.Uint64(m.Data[:8]) != h.ts || !bytes.Equal(m.Data[8:40], rid[:]) ||
				!bytes.Equal(m.Data[40:72], pub[:]) || (m.Data[72] == 1) != h.relayer {
				return fmt.Errorf("authentication fields differ")
			}
			var sig crypto.Signature
			copy(sig[:], m.Data[73:])
			return vpC08VerifySig(pub, m.Data[:73], &sig)
		}
	case "graph":
		n := vpC08Count(t, "points", 0, 64)
		nodes := vpC08DerivedHashes(seed, "gnode", n)
		hashes := vpC08DerivedHashes(seed, "ghash", n)
		for i := 0; i < n; i++ {
			num := uint64(i)
			if i < 4 {
				num = rapid.Uint64().Draw(t, fmt.Sprintf("gnum%d", i))
			}
			h.graph = append(h.graph, &SyncPoint{NodeId: nodes[i], Number: num, Hash: hashes[i], Pool: "ignored by the codec"})
		}
		want := make([]SyncPoint, n)
		for i, p := range h.graph {
			want[i] = SyncPoint{NodeId: p.NodeId, Number: p.Number, Hash: p.Hash}
		}
		b.typ, b.data = PeerMessageTypeGraph, buildGraphMessage(h)
		b.verify = func(m *PeerMessage) error {
			if len(m.Graph) != len(want) {
				return fmt.Errorf("graph points %d want %d", len(m.Graph), len(want))
			}
			for i, p := range m.Graph {
				if p == nil || p.NodeId != want[i].NodeId || p.Number != want[i].Number || p.Hash != want[i].Hash {
					return fmt.Errorf("graph point %d differs: %v want %v", i, p, want[i])
				}
			}
			if !bytes.Equal(m.unsigned, marshalSyncPoints(h.graph)) {
				return fmt.Errorf("graph unsigned slice is not the signed bytes")
			}
			return vpC08VerifySig(pub, m.unsigned, m.signature)
		}
	case "snapshot-confirm":
		snap := vpHash(t, "snap")
		b.typ, b.data = PeerMessageTypeSnapshotConfirm, buildSnapshotConfirmMessage(snap)
		b.verify = func(m *PeerMessage) error {
			if m.SnapshotHash != snap {
				return fmt.Errorf("snapshot hash %s want %s", m.SnapshotHash, snap)
			}
			return nil
		}
	case "transaction-request":
		tx := vpHash(t, "tx")
		b.typ, b.data = PeerMessageTypeTransactionRequest, buildTransactionRequestMessage(tx)
		b.verify = func(m *PeerMessage) error {
			if m.TransactionHash != tx {
				return fmt.Errorf("transaction hash %s want %s", m.TransactionHash, tx)
			}
			return nil
		}
	case "transaction":
		tx := vpC08GenTx(t, "tx")
		want := vpC08WantTxs([]*common.VersionedTransaction{tx})
		b.typ, b.data = PeerMessageTypeTransaction, buildTransactionMessage(tx)
		b.verify = func(m *PeerMessage) error { return vpC08CheckTxs(m.Transactions, want) }
	case "bundle", "finalized-bundle":
		typ := byte(PeerMessageTypeTransactionBundle)
		if kind == "finalized-bundle" {
			typ = PeerMessageTypeFinalizedTransactionBundle
		}
		txs := vpC08GenTxs(t, "txs", 0, common.SnapshotTransactionsMaximum)
		want := vpC08WantTxs(txs)
		b.typ, b.data = typ, buildTransactionsMessage(txs, typ)
		b.verify = func(m *PeerMessage) error { return vpC08CheckTxs(m.Transactions, want) }
	case "pre-commitments":
		n := vpC08Count(t, "commitments", 0, 1024)
		if !kit.Thorough() && n > 40 && n < 1021 {
			n = 1 + n%40 // quick tier: keep the point-validation cost bounded, boundary sizes stay
		}
		if n == 0 && kit.Known("C08-K1") {
			b.excludedKnown, n = true, 1
		}
		cs := make([]*crypto.Key, n)
		for i := range cs {
			k := vpDerivePoint(seed, 100+i)
			cs[i] = &k
		}
		b.typ, b.data = PeerMessageTypePreCommitments, buildCommitmentsMessage(h, cs)
		for i := range cs {
			b.points = append(b.points, 67+32*i)
		}
		b.verify = func(m *PeerMessage) error {
			if len(m.Commitments) != len(cs) {
				return fmt.Errorf("commitments %d want %d", len(m.Commitments), len(cs))
			}
			for i, k := range m.Commitments {
				if k == nil || *k != *cs[i] {
					return fmt.Errorf("commitment %d differs", i)
				}
			}
			return vpC08VerifySig(pub, m.unsigned, m.signature)
		}
	case "announcement":
		s := vpC08GenSnapshot(t, "s", 2)
		want := vpC08WantSnapshot(s)
		R := vpDerivePoint(seed, 1)
		b.typ, b.data = PeerMessageTypeBatchSnapshotAnnouncement, buildBatchSnapshotAnnouncementMessage(s, R, h.key)
		b.points = []int{65}
		b.verify = func(m *PeerMessage) error {
			if m.Commitment != R {
				return fmt.Errorf("commitment %s want %s", m.Commitment, R)
			}
			if err := want.check(m.Snapshot, true); err != nil {
				return err
			}
			// the receiver (kernel CosiQueueExternalAnnouncement) verifies over R || re-marshalled snapshot
			return vpC08VerifySig(pub, append(m.Commitment[:], m.Snapshot.VersionedMarshal()...), m.signature)
		}
	case "commitment":
		snap := vpHash(t, "snap")
		R := vpDerivePoint(seed, 1)
		wants := vpC08DerivedHashes(seed, "want", vpC08Count(t, "wants", 0, common.SnapshotTransactionsMaximum))
		b.typ, b.data = PeerMessageTypeBatchSnapshotCommitment, buildBatchSnapshotCommitmentMessage(h, snap, R, wants)
		b.points = []int{97}
		b.verify = func(m *PeerMessage) error {
			if m.SnapshotHash != snap || m.Commitment != R {
				return fmt.Errorf("snapshot hash / commitment differ: %s %s want %s %s", m.SnapshotHash, m.Commitment, snap, R)
			}
			if len(m.WantTxs) != len(wants) {
				return fmt.Errorf("want list %d want %d", len(m.WantTxs), len(wants))
			}
			for i := range wants {
				if m.WantTxs[i] != wants[i] {
					return fmt.Errorf("want list differs at %d", i)
				}
			}
			return vpC08VerifySig(pub, m.unsigned, m.signature)
		}
	case "tx-challenge":
		snap := vpHash(t, "snap")
		cosi := &crypto.CosiSignature{Signature: vpC08Sig(t, "cosi"), Mask: rapid.Uint64().Draw(t, "mask")}
		txs := vpC08GenTxs(t, "txs", 0, common.SnapshotTransactionsMaximum)
		want := vpC08WantTxs(txs)
		b.typ, b.data = PeerMessageTypeBatchTransactionChallenge, buildBatchTransactionChallengeMessage(snap, cosi, txs)
		b.verify = func(m *PeerMessage) error {
			if m.SnapshotHash != snap || m.Cosi.Signature != cosi.Signature || m.Cosi.Mask != cosi.Mask {
				return fmt.Errorf("snapshot hash / cosi differ")
			}
			return vpC08CheckTxs(m.Transactions, want)
		}
	case "response":
		snap := vpHash(t, "snap")
		var si [32]byte
		copy(si[:], vpC08Bytes(t, "si", 32, 32))
		b.typ, b.data = PeerMessageTypeBatchSnapshotResponse, buildSnapshotResponseMessage(snap, &si)
		b.verify = func(m *PeerMessage) error {
			if m.SnapshotHash != snap || m.Response != si {
				return fmt.Errorf("snapshot hash / response differ")
			}
			return nil
		}
	case "full-challenge":
		// The leader sends the snapshot's own transactions (kernel cosiHandleCommitment),
		// so the list is never empty; the snapshot carries the aggregated signature.
		s := vpC08GenSnapshot(t, "s", 1)
		want := vpC08WantSnapshot(s)
		commitment, challenge := vpDerivePoint(seed, 1), vpDerivePoint(seed, 2)
		if rapid.IntRange(0, 9).Draw(t, "same_point") == 0 {
			challenge = commitment
		}
		txs := vpC08GenTxs(t, "txs", 1, common.SnapshotTransactionsMaximum)
		wantTxs := vpC08WantTxs(txs)
		b.typ, b.data = PeerMessageTypeBatchFullChallenge, buildBatchFullChallengeMessage(s, &commitment, &challenge, txs)
		off := 5 + int(binary.BigEndian.Uint32(b.data[1:5]))
		b.points = []int{off, off + 32}
		b.verify = func(m *PeerMessage) error {
			if m.Commitment != commitment || m.Challenge != challenge {
				return fmt.Errorf("commitment/challenge differ: %s %s want %s %s", m.Commitment, m.Challenge, commitment, challenge)
			}
			if err := want.check(m.Snapshot, false); err != nil {
				return err
			}
			if m.Cosi.Mask != want.sig.Mask || m.Cosi.Signature != want.sig.Signature {
				return fmt.Errorf("cosi signature differs")
			}
			return vpC08CheckTxs(m.Transactions, wantTxs)
		}
	case "finalization":
		s := vpC08GenSnapshot(t, "s", 2)
		want := vpC08WantSnapshot(s)
		b.typ, b.data = PeerMessageTypeBatchSnapshotFinalization, buildBatchSnapshotFinalizationMessage(s)
		b.verify = func(m *PeerMessage) error { return want.check(m.Snapshot, true) }
	case "relay":
		me := NewPeer(h, vpHash(t, "me"), "127.0.0.1:7000", false)
		to := vpHash(t, "to")
		innerKind := "response"
		if allowRelay {
			innerKind = rapid.SampledFrom(vpC08Kinds[:len(vpC08Kinds)-2]).Draw(t, "inner_kind")
		}
		inner := vpC08Build(t, innerKind, false)
		b.typ, b.data = PeerMessageTypeRelay, me.buildRelayMessage(to, inner.data)
		for _, p := range inner.points {
			b.points = append(b.points, 65+p)
		}
		b.verify = func(m *PeerMessage) error {
			if !bytes.Equal(m.Data, b.data) {
				return fmt.Errorf("relay data differs")
			}
			// same slicing as relayOrHandlePeerMessage
			if !bytes.Equal(m.Data[1:33], me.IdForNetwork[:]) || !bytes.Equal(m.Data[33:65], to[:]) {
				return fmt.Errorf("relay from/to differ")
			}
			var im *PeerMessage
			var err error
			if p := vpCatch(func() { im, err = parseNetworkMessage(m.version, m.Data[65:]) }); p != nil {
				return fmt.Errorf("relayed %s message: parse panicked: %v", innerKind, p)
			}
			if err != nil || im == nil {
				return fmt.Errorf("relayed %s message rejected: %v", innerKind, err)
			}
			if im.Type != inner.typ {
				return fmt.Errorf("relayed message type %d want %d", im.Type, inner.typ)
			}
			return inner.verify(im)
		}
	case "consumers":
		me := NewPeer(h, vpHash(t, "me"), "127.0.0.1:7000", true)
		n := rapid.IntRange(0, 5).Draw(t, "consumers")
		ids := vpC08DerivedHashes(seed, "consumer", n)
		var want []string
		for i, id := range ids {
			ch := &vpC08Handle{key: vpDeriveKey(seed, 10+i), ts: uint64(i)}
			auth := ch.BuildAuthenticationMessage(me.IdForNetwork)
			p := NewPeer(nil, id, "", false)
			p.consumerAuth = &AuthToken{PeerId: id, Timestamp: ch.ts, Data: auth}
			me.consumers.Put(id, p)
			want = append(want, string(id[:])+string(auth))
		}
		sort.Strings(want)
		b.typ, b.data = PeerMessageTypeConsumers, me.buildConsumersMessage()
		b.verify = func(m *PeerMessage) error {
			const pl = 32 + 137 // record size used by updateRemoteRelayerConsumers
			if len(m.Data) != pl*len(want) {
				return fmt.Errorf("consumers payload %d bytes want %d", len(m.Data), pl*len(want))
			}
			var got []string
			for i := 0; i+pl <= len(m.Data); i += pl {
				got = append(got, string(m.Data[i:i+pl]))
			}
			sort.Strings(got)
			for i := range got {
				if got[i] != want[i] {
					return fmt.Errorf("consumer record %d differs", i)
				}
			}
			return nil
		}
	default:
		panic("unknown kind " + kind)
	}
	return b
}

// ---------------------------------------------------------------------------
// semantic invariants of any successfully parsed message (used on hostile
// input and by the native fuzz target)
// ---------------------------------------------------------------------------

func vpC08CheckParsed(version uint8, data []byte, m *PeerMessage) error {
	if m == nil {
		return fmt.Errorf("nil message without error")
	}
	if len(data) < 1 || m.Type != data[0] || m.version != version {
		return fmt.Errorf("type/version not carried over: %d/%d", m.Type, m.version)
	}
	point := func(name string, k crypto.Key) error {
		if !vpRefPointValid(k[:]) {
			return fmt.Errorf("%s %s accepted but is not a canonical prime-order point", name, k)
		}
		return nil
	}
	snapshot := func() error {
		if m.Snapshot == nil || len(m.Snapshot.Transactions) < 1 {
			return fmt.Errorf("message without a usable snapshot: %v", m.Snapshot)
		}
		return nil
	}
	txs := func() error {
		for i, tx := range m.Transactions {
			if tx == nil {
				return fmt.Errorf("nil transaction %d", i)
			}
		}
		return nil
	}
	switch m.Type {
	case PeerMessageTypePreCommitments:
		if len(m.Commitments) > 1024 || len(data) != 67+32*len(m.Commitments) || m.signature == nil || !bytes.Equal(m.unsigned, data[65:]) {
			return fmt.Errorf("commitments message shape: %d commitments, %d bytes", len(m.Commitments), len(data))
		}
		for i, k := range m.Commitments {
			if k == nil || !bytes.Equal(k[:], data[67+32*i:99+32*i]) {
				return fmt.Errorf("commitment %d is not the field at its offset", i)
			}
			if err := point("commitment", *k); err != nil {
				return err
			}
		}
	case PeerMessageTypeGraph:
		if m.signature == nil || !bytes.Equal(m.unsigned, data[65:]) {
			return fmt.Errorf("graph message without signature/unsigned bytes")
		}
		for i, p := range m.Graph {
			if p == nil {
				return fmt.Errorf("nil sync point %d", i)
			}
		}
	case PeerMessageTypePing:
		if len(data) != 1 {
			return fmt.Errorf("ping of %d bytes", len(data))
		}
	case PeerMessageTypeAuthentication:
		if len(m.Data) != 137 || !bytes.Equal(m.Data, data[1:]) {
			return fmt.Errorf("authentication payload of %d bytes", len(m.Data))
		}
	case PeerMessageTypeSnapshotConfirm:
		if len(data) != 33 || !bytes.Equal(m.SnapshotHash[:], data[1:]) {
			return fmt.Errorf("snapshot confirm shape")
		}
	case PeerMessageTypeTransactionRequest:
		if len(data) != 33 || !bytes.Equal(m.TransactionHash[:], data[1:]) {
			return fmt.Errorf("transaction request shape")
		}
	case PeerMessageTypeTransaction:
		if len(m.Transactions) != 1 {
			return fmt.Errorf("transaction message with %d transactions", len(m.Transactions))
		}
		return txs()
	case PeerMessageTypeTransactionBundle, PeerMessageTypeFinalizedTransactionBundle:
		if len(data) < 2 || len(m.Transactions) != int(data[1]) {
			return fmt.Errorf("bundle with %d transactions", len(m.Transactions))
		}
		return txs()
	case PeerMessageTypeBatchSnapshotAnnouncement:
		if m.signature == nil || !bytes.Equal(m.signature[:], data[1:65]) || !bytes.Equal(m.Commitment[:], data[65:97]) {
			return fmt.Errorf("announcement signature/commitment are not the fields at their offsets")
		}
		if err := snapshot(); err != nil {
			return err
		}
		return point("commitment", m.Commitment)
	case PeerMessageTypeBatchSnapshotCommitment:
		if m.signature == nil || !bytes.Equal(m.unsigned, data[65:]) || !bytes.Equal(m.SnapshotHash[:], data[65:97]) ||
			!bytes.Equal(m.Commitment[:], data[97:129]) || len(m.WantTxs)*32 != len(data)-129 {
			return fmt.Errorf("commitment message fields are not the fields at their offsets")
		}
		return point("commitment", m.Commitment)
	case PeerMessageTypeBatchFullChallenge:
		if err := snapshot(); err != nil {
			return err
		}
		if m.Snapshot.Signature != nil || m.Cosi.Mask == 0 {
			return fmt.Errorf("full challenge without the aggregated signature in msg.Cosi")
		}
		if err := point("commitment", m.Commitment); err != nil {
			return err
		}
		if err := point("challenge", m.Challenge); err != nil {
			return err
		}
		return txs()
	case PeerMessageTypeBatchTransactionChallenge:
		if !bytes.Equal(m.SnapshotHash[:], data[1:33]) || !bytes.Equal(m.Cosi.Signature[:], data[33:97]) {
			return fmt.Errorf("transaction challenge fields are not the fields at their offsets")
		}
		return txs()
	case PeerMessageTypeBatchSnapshotResponse:
		if len(data) != 65 || !bytes.Equal(m.SnapshotHash[:], data[1:33]) || !bytes.Equal(m.Response[:], data[33:]) {
			return fmt.Errorf("response shape")
		}
	case PeerMessageTypeBatchSnapshotFinalization:
		return snapshot()
	case PeerMessageTypeRelay:
		if len(m.Data) < 65 || !bytes.Equal(m.Data, data) {
			return fmt.Errorf("relay shape")
		}
	case PeerMessageTypeConsumers:
		if !bytes.Equal(m.Data, data[1:]) {
			return fmt.Errorf("consumers shape")
		}
	}
	return nil
}

func vpC08Parse(version uint8, data []byte) (m *PeerMessage, err error, panicked any) {
	panicked = vpCatch(func() { m, err = parseNetworkMessage(version, data) })
	return
}

func vpC08Fp(data []byte) string {
	h := crypto.Blake3Hash(data)
	return hex.EncodeToString(h[:12])
}

// ---------------------------------------------------------------------------
// TestVP_C08_known_1: witness of known finding C08-K1. buildCommitmentsMessage
// accepts an empty list (the property quantifies over lists 0..1024) and emits
// 1+64+2 = 67 bytes, which parseNetworkMessage rejects with its "len(data) < 80"
// guard. The kernel's only caller always sends 512 commitments.
// ---------------------------------------------------------------------------

func TestVP_C08_known_1(t *testing.T) {
	if kit.Replaying() {
		return
	}
	seed := bytes.Repeat([]byte{0x5a}, 64)
	h := &vpC08Handle{key: vpDeriveKey(seed, 0)}
	data := buildCommitmentsMessage(h, nil)
	m, err, p := vpC08Parse(2, data)
	if p != nil {
		t.Fatalf("parse of the empty commitments message panicked: %v", p)
	}
	if err == nil && m != nil && len(m.Commitments) == 0 {
		return // no longer fails
	}
	kit.ReportKnown(t, "C08", "C08-K1", fmt.Sprintf("buildCommitmentsMessage(handle, nil) yields %d bytes that parseNetworkMessage rejects: %v", len(data), err))
}

// ---------------------------------------------------------------------------
// TestVP_C08_roundtrip: parse(build(x)) has the same type and field values
// ---------------------------------------------------------------------------

func TestVP_C08_roundtrip(t *testing.T) {
	c := kit.New(t, "C08", "rapid: one builder per case fed with generated snapshots (round 0 / round>=1, 1..255 tx hashes, optional CoSi signature), small structurally valid transactions (lists 0..255), valid points derived from drawn seed bytes (commitment lists 0..1024), sync points 0..64, a stub handle signing with a seed-derived key; parsed fields compared with the inputs; non-trivial = built message longer than 100 bytes; distinct by message bytes")
	c.Require(vpC08KindClasses("built-")...)
	c.Require("payload>100", "relay-of-point-message", "txs=255", "txs=0", "commitments=1024", "snapshot-signed", "snapshot-round0")
	c.Assume("full-challenge messages are built with the snapshot's own (>=1) transactions and a CoSi-signed snapshot, as kernel cosiHandleCommitment does")
	kit.SetChecks(kit.N(3000, 100000))
	rapid.Check(t, func(t *rapid.T) {
		kind := rapid.SampledFrom(vpC08Kinds).Draw(t, "kind")
		version := rapid.Byte().Draw(t, "version")
		b := vpC08Build(t, kind, true)
		if b.excludedKnown {
			c.Class("excluded-known")
		}
		if len(b.data) < 1 || b.data[0] != b.typ {
			t.Fatalf("%s builder: first byte %v is not the type %d", kind, b.data[:1], b.typ)
		}
		m, err, p := vpC08Parse(version, b.data)
		if p != nil {
			t.Fatalf("parse of built %s message panicked: %v\n%x", kind, p, b.data)
		}
		if err != nil || m == nil {
			t.Fatalf("built %s message (%d bytes) rejected: %v", kind, len(b.data), err)
		}
		if m.Type != b.typ || m.version != version {
			t.Fatalf("built %s message parsed as type %d version %d", kind, m.Type, m.version)
		}
		if err := b.verify(m); err != nil {
			t.Fatalf("built %s message (%d bytes) parsed with different field values: %v", kind, len(b.data), err)
		}
		if err := vpC08CheckParsed(version, b.data, m); err != nil {
			t.Fatalf("built %s message: %v", kind, err)
		}
		classes := []string{"built-" + kind}
		if len(b.data) > 100 {
			classes = append(classes, "payload>100")
		}
		if kind == "relay" && len(b.points) > 0 {
			classes = append(classes, "relay-of-point-message")
		}
		switch kind {
		case "bundle", "finalized-bundle", "tx-challenge":
			classes = append(classes, fmt.Sprintf("txs=%d", vpC08Bucket(len(m.Transactions), 255)))
		case "pre-commitments":
			classes = append(classes, fmt.Sprintf("commitments=%d", vpC08Bucket(len(m.Commitments), 1024)))
		case "announcement", "finalization", "full-challenge":
			if m.Snapshot.Signature != nil || kind == "full-challenge" {
				classes = append(classes, "snapshot-signed")
			}
			if m.Snapshot.RoundNumber == 0 {
				classes = append(classes, "snapshot-round0")
			}
		}
		c.Case(vpC08Fp(b.data), len(b.data) > 100, classes...)
		c.Sample(map[string]any{"kind": kind, "bytes": len(b.data)})
	})
}

// vpC08Bucket keeps 0 and max exact and maps everything between to 1.
func vpC08Bucket(n, max int) int {
	if n == 0 || n == max {
		return n
	}
	return 1
}

// ---------------------------------------------------------------------------
// TestVP_C08_invalid_points: commitment / challenge fields that are not
// canonical prime-order points are rejected at parse time
// ---------------------------------------------------------------------------

var vpC08Torsion = []string{ // canonical encodings of the 8 small-order points; [0] is the identity
	"0100000000000000000000000000000000000000000000000000000000000000",
	"ecffffffffffffffffffffffffffffffffffffffffffffffffffffffffffff7f",
	"0000000000000000000000000000000000000000000000000000000000000000",
	"0000000000000000000000000000000000000000000000000000000000000080",
	"26e8958fc2b227b045c3f489f2ef98f0d5dfac05d3c63339b13802886d53fc05",
	"26e8958fc2b227b045c3f489f2ef98f0d5dfac05d3c63339b13802886d53fc85",
	"c7176a703d4dd84fba3c0b760d10670f2a2053fa2c39ccc64ec7fd7792ac037a",
	"c7176a703d4dd84fba3c0b760d10670f2a2053fa2c39ccc64ec7fd7792ac03fa",
}

var vpC08NonCanonical = []string{ // encodings the curve library decodes but that are not the canonical form
	"0100000000000000000000000000000000000000000000000000000000000080", // identity, x sign bit set
	"ecffffffffffffffffffffffffffffffffffffffffffffffffffffffffffffff", // order 2, x sign bit set
	"eeffffffffffffffffffffffffffffffffffffffffffffffffffffffffffff7f", // y = p+1
	"eeffffffffffffffffffffffffffffffffffffffffffffffffffffffffffffff",
	"edffffffffffffffffffffffffffffffffffffffffffffffffffffffffffff7f", // y = p
	"edffffffffffffffffffffffffffffffffffffffffffffffffffffffffffffff",
	"f0ffffffffffffffffffffffffffffffffffffffffffffffffffffffffffff7f", // y = p+3, on curve
	"f1ffffffffffffffffffffffffffffffffffffffffffffffffffffffffffffff", // y = p+4, on curve
}

func vpC08Hex32(s string) []byte {
	b, err := hex.DecodeString(s)
	if err != nil || len(b) != 32 {
		panic(s)
	}
	return b
}

// vpC08BadPoint returns a 32-byte encoding of the drawn class.
func vpC08BadPoint(t *rapid.T, seed []byte) (string, []byte) {
	cls := rapid.SampledFrom([]string{"identity", "small-order", "non-canonical", "mixed-order", "off-curve", "random-bytes", "valid-control"}).Draw(t, "point_class")
	switch cls {
	case "identity":
		return cls, vpC08Hex32(vpC08Torsion[0])
	case "small-order":
		return cls, vpC08Hex32(rapid.SampledFrom(vpC08Torsion[1:]).Draw(t, "torsion"))
	case "non-canonical":
		return cls, vpC08Hex32(rapid.SampledFrom(vpC08NonCanonical).Draw(t, "noncanon"))
	case "mixed-order":
		base := vpDerivePoint(seed, 7000+rapid.IntRange(0, 1000).Draw(t, "mixed_base"))
		p, err := edwards25519.NewIdentityPoint().SetBytes(base[:])
		if err != nil {
			panic(err)
		}
		tor, err := edwards25519.NewIdentityPoint().SetBytes(vpC08Hex32(rapid.SampledFrom(vpC08Torsion[1:]).Draw(t, "torsion")))
		if err != nil {
			panic(err)
		}
		return cls, p.Add(p, tor).Bytes()
	case "off-curve":
		b := vpC08Bytes(t, "offcurve", 32, 32)
		for i := 0; i < 256; i++ {
			if _, err := edwards25519.NewIdentityPoint().SetBytes(b); err != nil {
				return cls, b
			}
			b[0]++
		}
		return "random-bytes", b
	case "random-bytes":
		return cls, vpC08Bytes(t, "random32", 32, 32)
	default:
		k := vpDerivePoint(seed, 9000+rapid.IntRange(0, 1000).Draw(t, "control"))
		return cls, k[:]
	}
}

var vpC08PointKinds = []string{"pre-commitments", "announcement", "commitment", "full-challenge"}

func TestVP_C08_invalid_points(t *testing.T) {
	c := kit.New(t, "C08", "rapid: a built announcement / commitment / full-challenge / pre-commitments message (also wrapped in a relay envelope) whose commitment or challenge field is overwritten with an identity, small-order, mixed-order (prime-order + torsion), non-canonical, off-curve, random or (control) another valid encoding; reference validity = decodes, canonical, not identity, [L]P = O computed with the curve library; invalid must be rejected, valid must be accepted with that field value; non-trivial = invalid encoding; distinct by message bytes")
	var req []string
	for _, k := range vpC08PointKinds {
		req = append(req, "field-"+k)
	}
	c.Require(req...)
	c.Require("field-full-challenge-challenge", "field-full-challenge-commitment", "identity", "small-order", "non-canonical", "mixed-order", "off-curve", "random-bytes", "valid-control", "rejected", "accepted", "relayed")
	kit.SetChecks(kit.N(1500, 60000))
	rapid.Check(t, func(t *rapid.T) {
		kind := rapid.SampledFrom(vpC08PointKinds).Draw(t, "kind")
		b := vpC08Build(t, kind, false)
		if kind == "pre-commitments" && len(b.points) == 0 {
			c.Class("empty-commitment-list")
			return
		}
		seed := vpSeed64(t, "point_seed")
		cls, enc := vpC08BadPoint(t, seed)
		fi := rapid.IntRange(0, len(b.points)-1).Draw(t, "field_index")
		if len(b.points) > 3 && rapid.Bool().Draw(t, "edge_field") {
			fi = rapid.SampledFrom([]int{0, len(b.points) - 1}).Draw(t, "edge_index")
		}
		off := b.points[fi]
		data := append([]byte(nil), b.data...)
		copy(data[off:off+32], enc)
		relayed := rapid.IntRange(0, 3).Draw(t, "relayed") == 0
		valid := vpRefPointValid(enc)
		switch cls {
		case "identity", "small-order", "non-canonical", "mixed-order", "off-curve":
			if valid {
				t.Fatalf("harness: %s encoding %x is valid by the reference", cls, enc)
			}
		case "valid-control":
			if !valid {
				t.Fatalf("harness: control encoding %x is invalid by the reference", enc)
			}
		}
		var m *PeerMessage
		var err error
		var p any
		if relayed {
			env := append(append([]byte{PeerMessageTypeRelay}, make([]byte, 64)...), data...)
			var outer *PeerMessage
			outer, err, p = vpC08Parse(2, env)
			if p == nil && err == nil {
				m, err, p = vpC08Parse(outer.version, outer.Data[65:])
			}
		} else {
			m, err, p = vpC08Parse(2, data)
		}
		if p != nil {
			t.Fatalf("%s message with %s point %x: parse panicked: %v", kind, cls, enc, p)
		}
		field := "field-" + kind
		sub := ""
		if kind == "full-challenge" {
			sub = []string{"field-full-challenge-commitment", "field-full-challenge-challenge"}[fi]
		}
		classes := []string{field, cls}
		if sub != "" {
			classes = append(classes, sub)
		}
		if relayed {
			classes = append(classes, "relayed")
		}
		if valid {
			if err != nil || m == nil {
				t.Fatalf("%s message whose point field %d is the valid point %x was rejected: %v", kind, fi, enc, err)
			}
			var got crypto.Key
			switch {
			case kind == "pre-commitments":
				got = *m.Commitments[fi]
			case kind == "full-challenge" && fi == 1:
				got = m.Challenge
			default:
				got = m.Commitment
			}
			if !bytes.Equal(got[:], enc) {
				t.Fatalf("%s message: point field %d parsed as %s, message carries %x", kind, fi, got, enc)
			}
			classes = append(classes, "accepted")
		} else {
			if err == nil {
				t.Fatalf("%s message whose point field %d (offset %d) is the invalid (%s) encoding %x was accepted", kind, fi, off, cls, enc)
			}
			classes = append(classes, "rejected")
		}
		c.Case(vpC08Fp(data), !valid, classes...)
		c.Sample(map[string]any{"kind": kind, "class": cls, "point": hex.EncodeToString(enc), "field": fi, "rejected": err != nil})
	})
}

// ---------------------------------------------------------------------------
// TestVP_C08_hostile: never panics; whatever parses satisfies the invariants
// ---------------------------------------------------------------------------

var vpC08Types = []byte{PeerMessageTypePing, PeerMessageTypeAuthentication, PeerMessageTypeGraph, PeerMessageTypeSnapshotConfirm,
	PeerMessageTypeTransactionRequest, PeerMessageTypeTransaction, PeerMessageTypeTransactionBundle, PeerMessageTypeFinalizedTransactionBundle,
	PeerMessageTypePreCommitments, PeerMessageTypeBatchSnapshotAnnouncement, PeerMessageTypeBatchSnapshotCommitment,
	PeerMessageTypeBatchTransactionChallenge, PeerMessageTypeBatchSnapshotResponse, PeerMessageTypeBatchFullChallenge,
	PeerMessageTypeBatchSnapshotFinalization, PeerMessageTypeRelay, PeerMessageTypeConsumers}

// lengths at and around every size guard of the parser
var vpC08Lengths = []int{0, 1, 2, 3, 4, 5, 6, 7, 31, 32, 33, 63, 64, 65, 66, 67, 68, 69, 70, 71, 72, 79, 80, 96, 97, 98, 99, 100, 101,
	104, 105, 106, 110, 127, 128, 129, 130, 136, 137, 138, 160, 161, 168, 169, 255, 256, 257, 258, 300}

func vpC08HostilePayload(t *rapid.T, seed []byte) []byte {
	n := rapid.OneOf(rapid.SampledFrom(vpC08Lengths), rapid.IntRange(0, 400)).Draw(t, "len")
	var pl []byte
	switch rapid.IntRange(0, 4).Draw(t, "fill") {
	case 0:
		pl = make([]byte, n)
	case 1:
		pl = bytes.Repeat([]byte{0xff}, n)
	case 2:
		pat := vpC08Bytes(t, "pattern", 1, 6)
		pl = bytes.Repeat(pat, n/len(pat)+1)[:n]
	default:
		pl = vpC08Bytes(t, "payload", n, n)
	}
	// sprinkle plausible structure: valid points and codec magics at field offsets
	k := rapid.IntRange(0, 3).Draw(t, "sprinkles")
	for i := 0; i < k; i++ {
		off := rapid.SampledFrom([]int{0, 4, 32, 64, 66, 96, 98, 104, 128, 160, 200, 232, 264}).Draw(t, fmt.Sprintf("sp_off%d", i))
		var piece []byte
		switch rapid.IntRange(0, 5).Draw(t, fmt.Sprintf("sp_kind%d", i)) {
		case 0:
			pt := vpDerivePoint(seed, 50+i)
			piece = pt[:]
		case 1:
			piece = []byte{0x77, 0x77, 0x00, 0x02} // snapshot magic+version
		case 2:
			piece = []byte{0x77, 0x77, 0x00, 0x05} // transaction magic+version
		case 3:
			piece = []byte{0x77, 0x77, 0x00, 0x01} // minimum encoding (sync points)
		case 4:
			piece = rapid.SampledFrom([][]byte{{0xff, 0xff}, {0xff, 0xff, 0xff, 0xff}, {0x04, 0x00}, {0x04, 0x01}, {0x00, 0x00, 0x00, 0xc8}, {0xff, 0x01}}).Draw(t, fmt.Sprintf("sp_const%d", i))
		default:
			piece = binary.BigEndian.AppendUint16(nil, uint16(rapid.IntRange(0, 1100).Draw(t, fmt.Sprintf("sp_cnt%d", i))))
		}
		if off < len(pl) {
			copy(pl[off:], piece)
		}
	}
	return pl
}

func vpC08Mutate(t *rapid.T, data []byte) (string, []byte) {
	out := append([]byte(nil), data...)
	switch rapid.IntRange(0, 5).Draw(t, "mutation") {
	case 0:
		if len(out) > 0 {
			i := rapid.OneOf(rapid.IntRange(0, len(out)-1), rapid.IntRange(0, vpMin(len(out)-1, 140))).Draw(t, "flip_at")
			out[i] ^= byte(1 << rapid.IntRange(0, 7).Draw(t, "flip_bit"))
		}
		return "flip", out
	case 1:
		if len(out) > 0 {
			i := rapid.OneOf(rapid.IntRange(0, len(out)-1), rapid.IntRange(0, vpMin(len(out)-1, 140))).Draw(t, "set_at")
			out[i] = rapid.SampledFrom([]byte{0, 1, 0x7f, 0x80, 0xff}).Draw(t, "set_val")
		}
		return "flip", out
	case 2:
		cut := rapid.OneOf(rapid.IntRange(0, len(out)), rapid.IntRange(vpMax(0, len(out)-40), len(out))).Draw(t, "cut")
		return "truncate", out[:cut]
	case 3:
		return "extend", append(out, vpC08Bytes(t, "tail", 1, 40)...)
	case 4:
		// overwrite a 2- or 4-byte field with a hostile count/length
		w := rapid.SampledFrom([][]byte{{0xff, 0xff}, {0xff, 0xff, 0xff, 0xff}, {0, 0}, {0, 0, 0, 0}, {0x7f, 0xff, 0xff, 0xff}, {0x80, 0, 0, 0}, {0x04, 0x01}, {0x01, 0x00}}).Draw(t, "hostile_const")
		if len(out) >= len(w) {
			i := rapid.OneOf(rapid.IntRange(0, len(out)-len(w)), rapid.IntRange(0, vpMin(len(out)-len(w), 140))).Draw(t, "const_at")
			copy(out[i:], w)
		}
		return "hostile-count", out
	default:
		if len(out) > 0 {
			out[0] = rapid.SampledFrom(vpC08Types).Draw(t, "retype")
		}
		return "retype", out
	}
}

func vpMin(a, b int) int {
	if a < b {
		return a
	}
	return b
}

func vpMax(a, b int) int {
	if a > b {
		return a
	}
	return b
}

func vpC08Judge(t *rapid.T, what string, version uint8, data []byte) (parsed bool) {
	m, err, p := vpC08Parse(version, data)
	if p != nil {
		t.Fatalf("%s: parseNetworkMessage panicked on %d bytes: %v\n%x", what, len(data), p, vpC08Head(data))
	}
	if err != nil {
		return false
	}
	if e := vpC08CheckParsed(version, data, m); e != nil {
		t.Fatalf("%s: %d bytes parsed without error but: %v\n%x", what, len(data), e, vpC08Head(data))
	}
	return true
}

func vpC08Head(data []byte) []byte {
	if len(data) > 600 {
		return data[:600]
	}
	return data
}

func TestVP_C08_hostile(t *testing.T) {
	c := kit.New(t, "C08", "rapid: (a) every known type byte (and arbitrary ones) x payloads of lengths at/around each size guard, filled with zeros/ff/patterns/random bytes and sprinkled with valid points, codec magics and hostile counts; (b) builder output with one byte flipped/overwritten, truncated, extended, a count field replaced by a hostile constant, or re-typed; oracle: no panic, and a successful parse satisfies the per-type invariants (usable snapshot, non-nil entries, fields equal to their wire offsets, commitment/challenge valid points); non-trivial = input of a known type longer than 1 byte; distinct by input bytes")
	for _, ty := range vpC08Types {
		c.Require(fmt.Sprintf("raw-type-%d", ty))
	}
	c.Require(vpC08KindClasses("mutated-")...)
	c.Require("raw-unknown-type", "flip", "truncate", "extend", "hostile-count", "retype", "parsed-ok", "parse-error", "mutant-parsed-ok")
	kit.SetChecks(kit.N(10000, 400000))
	rapid.Check(t, func(t *rapid.T) {
		version := rapid.Byte().Draw(t, "version")
		seed := vpSeed64(t, "seed")
		if rapid.Bool().Draw(t, "raw") {
			ty := rapid.OneOf(rapid.SampledFrom(vpC08Types), rapid.Byte()).Draw(t, "type")
			data := append([]byte{ty}, vpC08HostilePayload(t, seed)...)
			if rapid.IntRange(0, 40).Draw(t, "empty") == 0 {
				data = nil
			}
			ok := vpC08Judge(t, "raw", version, data)
			cls := "raw-unknown-type"
			if len(data) > 0 && bytes.IndexByte(vpC08Types, data[0]) >= 0 {
				cls = fmt.Sprintf("raw-type-%d", data[0])
			}
			res := "parse-error"
			if ok {
				res = "parsed-ok"
			}
			c.Case(vpC08Fp(data), cls != "raw-unknown-type" && len(data) > 1, cls, res)
			return
		}
		kind := rapid.SampledFrom(vpC08Kinds).Draw(t, "kind")
		b := vpC08Build(t, kind, true)
		mut, data := vpC08Mutate(t, b.data)
		ok := vpC08Judge(t, mut+" of built "+kind, version, data)
		res := "parse-error"
		if ok {
			res = "parsed-ok"
		}
		classes := []string{"mutated-" + kind, mut, res}
		if ok {
			classes = append(classes, "mutant-parsed-ok")
		}
		c.Case(vpC08Fp(data), len(data) > 1, classes...)
		c.Sample(map[string]any{"kind": kind, "mutation": mut, "bytes": len(data), "parsed": ok})
	})
}

// ---------------------------------------------------------------------------
// TestVP_C08_cuts: every prefix of a built message (all cut lengths), and every
// (type byte, zero/ff payload length 0..300) pair, enumerated completely
// ---------------------------------------------------------------------------

func TestVP_C08_cuts(t *testing.T) {
	c := kit.New(t, "C08", "for a few generated messages per builder: every prefix (all cut lengths) and the message with each single trailing byte count 1..3 appended; every prefix of a commitment and a pre-commitments message whose last field is a point ending in a zero byte; plus the full grid type byte 0..255 x payload length 0..300 x fill {00, ff}; oracle as in the hostile test; non-trivial = prefix shorter than the message; distinct by input bytes")
	c.Require(vpC08KindClasses("cuts-")...)
	c.Require("grid", "cuts-zero-tail-point")
	kit.SetChecks(kit.N(2, 36))
	rapid.Check(t, func(t *rapid.T) {
		for _, kind := range vpC08Kinds {
			b := vpC08Build(t, kind, true)
			data := b.data
			for cut := 0; cut <= len(data); cut++ {
				if len(data) > 2400 && cut > 1200 && cut < len(data)-1200 {
					continue // long lists: all cuts of the first and the last 1200 bytes
				}
				vpC08Judge(t, fmt.Sprintf("cut %d of built %s", cut, kind), 2, data[:cut])
				c.Case(vpC08Fp(data[:cut]), cut < len(data), "cuts-"+kind)
			}
			for extra := 1; extra <= 3; extra++ {
				ext := append(append([]byte(nil), data...), make([]byte, extra)...)
				vpC08Judge(t, fmt.Sprintf("%d zero bytes after built %s", extra, kind), 2, ext)
				c.Case(vpC08Fp(ext), true, "cuts-"+kind)
			}
		}
		// messages that end in a point whose encoding ends in zero bytes: a cut
		// inside the point, padded by a parser that copies what is there, is the
		// whole point again
		seed := vpSeed64(t, "zero_tail_seed")
		h := vpC08GenHandle(t, seed)
		var R crypto.Key
		for i := 1; ; i++ {
			if R = vpDerivePoint(seed, 1000+i); R[31] == 0 {
				break
			}
		}
		for name, data := range map[string][]byte{
			"commitment":      buildBatchSnapshotCommitmentMessage(h, vpHash(t, "zero_tail_snap"), R, nil),
			"pre-commitments": buildCommitmentsMessage(h, []*crypto.Key{&R}),
		} {
			for cut := 0; cut <= len(data); cut++ {
				vpC08Judge(t, fmt.Sprintf("cut %d of a %s message ending in a point with a zero last byte", cut, name), 2, data[:cut])
				c.Case(vpC08Fp(data[:cut]), cut < len(data), "cuts-zero-tail-point")
			}
		}
	})
	if kit.Replaying() {
		return
	}
	shard, n := kit.Shard()
	if shard != 0 && n > 1 {
		c.Class("grid") // enumerated by shard 0
		return
	}
	for ty := 0; ty < 256; ty++ {
		for _, fill := range []byte{0x00, 0xff} {
			buf := bytes.Repeat([]byte{fill}, 301)
			buf[0] = byte(ty)
			for l := 0; l <= 300; l++ {
				data := buf[:1+l]
				m, err, p := vpC08Parse(2, data)
				if p != nil {
					t.Fatalf("type %d with %d bytes of %02x: parse panicked: %v", ty, l, fill, p)
				}
				if err == nil {
					if e := vpC08CheckParsed(2, data, m); e != nil {
						t.Fatalf("type %d with %d bytes of %02x parsed but: %v", ty, l, fill, e)
					}
				}
				c.Case(fmt.Sprintf("grid-%d-%d-%d", ty, fill, l), l > 0, "grid")
			}
		}
	}
	c.Exhaustive("type byte 0..255 x payload length 0..300 x fill {0x00,0xff}; every prefix of the sampled built messages")
}

// ---------------------------------------------------------------------------
// native fuzz target (thorough tier)
// ---------------------------------------------------------------------------

func FuzzVP_C08_parse(f *testing.F) {
	for i, kind := range vpC08Kinds {
		k := kind
		for j := 0; j < 3; j++ {
			ex := rapid.Custom(func(t *rapid.T) []byte { return vpC08Build(t, k, true).data }).Example(i*16 + j)
			if len(ex) < 1<<16 {
				f.Add(ex)
			}
		}
	}
	f.Add([]byte{})
	f.Add([]byte{PeerMessageTypePing})
	for _, ty := range vpC08Types {
		f.Add(append([]byte{ty}, bytes.Repeat([]byte{0xff}, 300)...))
		f.Add(append([]byte{ty}, make([]byte, 300)...))
		f.Add(append([]byte{ty}, 0xff, 0xff, 0xff, 0xff, 0xff, 0xff, 0xff, 0xff))
		f.Add(append(append([]byte{ty}, make([]byte, 64)...), 0x77, 0x77, 0x00, 0x01, 0xff, 0xff))
		f.Add(append(append([]byte{ty}, make([]byte, 64)...), 0x04, 0x00))
		f.Add(append([]byte{ty, 0xff, 0xff, 0xff, 0xff, 0xff}, 0x77, 0x77, 0x00, 0x05))
		f.Add(append([]byte{ty, 0x00, 0x00, 0x00, 0xc8}, 0x77, 0x77, 0x00, 0x02))
	}
	for _, s := range append(append([]string{}, vpC08Torsion...), vpC08NonCanonical...) {
		pt := vpC08Hex32(s)
		f.Add(append(append([]byte{PeerMessageTypeBatchSnapshotCommitment}, make([]byte, 96)...), pt...))
		f.Add(append(append(append([]byte{PeerMessageTypePreCommitments}, make([]byte, 64)...), 0, 1), pt...))
		f.Add(append(append(append(append([]byte{PeerMessageTypeBatchSnapshotAnnouncement}, make([]byte, 64)...), pt...), 0x77, 0x77, 0x00, 0x02), make([]byte, 120)...))
	}
	f.Fuzz(func(t *testing.T, data []byte) {
		m, err := parseNetworkMessage(2, data) // a panic is a crasher
		if err != nil {
			return
		}
		if e := vpC08CheckParsed(2, data, m); e != nil {
			t.Fatalf("%d bytes parsed without error but: %v", len(data), e)
		}
		if m.Type == PeerMessageTypeRelay {
			if im, err := parseNetworkMessage(m.version, m.Data[65:]); err == nil {
				if e := vpC08CheckParsed(m.version, m.Data[65:], im); e != nil {
					t.Fatalf("relayed %d bytes parsed without error but: %v", len(m.Data)-65, e)
				}
			}
		}
	})
}
