//go:build verif

package p2p

import (
	"bytes"
	"fmt"
	"testing"

	"pgregory.net/rapid"
	kit "verifkit"
)

// A peer connection carries many messages. The receive loop parses a message,
// queues the parsed value for the handler goroutine and immediately receives
// the next one, so a parsed message must stay faithful while later messages
// arrive on the same connection (parsed values may keep sub-slices of the
// received bytes: signed payloads, relay envelopes, authentication data).
// This unit sends 2..6 built messages back to back over one loopback QUIC
// connection, receives and parses each as it arrives, and verifies ALL parsed
// values (and the received bytes) only after the last one has arrived.
func TestVP_C08_stream_roundtrip(t *testing.T) {
	c := kit.New(t, "C08", "rapid: 2..6 messages from the builders (every kind; small ones after large ones and vice versa) sent back to back over one loopback QUIC connection, each received with Receive and parsed on arrival, all field comparisons (same oracle as the single-message round trip, incl. the signed payload slices) deferred until the last message has arrived; transport trouble (I/O error, deadline) makes the case inconclusive, not failing; non-trivial = a point/graph/relay/authentication message (whose parsed value keeps sub-slices of the input) followed by another message; distinct by concatenated message bytes")
	c.Require("followed-aliasing-kind", "smaller-after-larger")
	kit.SetChecks(kit.N(40, 1500))
	pair, err := vpC31NewPair()
	if err != nil {
		kit.Inconclusive(t, "loopback QUIC pair: %v", err)
		return
	}
	defer func() { pair.close() }()
	troubles, cases := 0, 0
	renew := false
	rapid.Check(t, func(t *rapid.T) {
		cases++
		if renew {
			// the connection of a case that ended in transport trouble may be out
			// of step (half-read frame): continue on a fresh one
			pair.close()
			np, nerr := vpC31NewPair()
			if nerr != nil {
				troubles++
				t.Skipf("new loopback pair: %v", nerr)
			}
			pair, renew = np, false
		}
		n := rapid.IntRange(2, 6).Draw(t, "messages")
		dir := rapid.IntRange(0, 1).Draw(t, "dir")
		src, dst := pair.ends(dir)
		type got struct {
			b    *vpC08Built
			m    *PeerMessage
			data []byte
			want []byte
		}
		var all []got
		var fp []byte
		aliasing, shrink := false, false
		for i := 0; i < n; i++ {
			kind := rapid.SampledFrom(vpC08Kinds).Draw(t, "kind")
			b := vpC08Build(t, kind, true)
			if b.excludedKnown || len(b.data) < 1 || len(b.data) > 3<<20 {
				continue
			}
			if len(all) > 0 {
				switch all[len(all)-1].b.kind {
				case "pre-commitments", "graph", "commitment", "relay", "authentication", "consumers":
					aliasing = true
				}
				if len(b.data) < len(all[len(all)-1].want) {
					shrink = true
				}
			}
			if terr := src.Send(b.data); terr != nil {
				troubles++
				renew = true
				t.Skipf("send: %v", terr)
			}
			r, rerr := vpC31Recv(dst, TransportMessageMaxSize)
			if rerr != nil || r.err != nil || r.msg == nil {
				troubles++
				renew = true
				t.Skipf("receive: %v %v", rerr, r)
			}
			if !bytes.Equal(r.msg.Data, b.data) {
				t.Fatalf("message %d (%s, %d bytes) was not delivered intact", i, kind, len(b.data))
			}
			m, perr, p := vpC08Parse(r.msg.Version, r.msg.Data)
			if p != nil || perr != nil || m == nil {
				t.Fatalf("received %s message does not parse: %v %v", kind, perr, p)
			}
			all = append(all, got{b: b, m: m, data: r.msg.Data, want: append([]byte{}, b.data...)})
			fp = append(fp, b.data...)
		}
		// deferred comparison: everything parsed on this connection is still what was sent
		for i, g := range all {
			if !bytes.Equal(g.data, g.want) {
				t.Fatalf("the bytes of received message %d (%s) changed after later messages arrived on the connection", i, g.b.kind)
			}
			if g.m.Type != g.b.typ {
				t.Fatalf("message %d parsed as type %d, built as %d", i, g.m.Type, g.b.typ)
			}
			if err := g.b.verify(g.m); err != nil {
				t.Fatalf("message %d (%s, %d bytes) no longer matches what was sent after %d later messages arrived: %v", i, g.b.kind, len(g.want), len(all)-1-i, err)
			}
			if err := vpC08CheckParsed(g.m.version, g.want, g.m); err != nil {
				t.Fatalf("message %d (%s) after later messages: %v", i, g.b.kind, err)
			}
		}
		cl := []string{}
		if aliasing {
			cl = append(cl, "followed-aliasing-kind")
		}
		if shrink {
			cl = append(cl, "smaller-after-larger")
		}
		if len(all) >= 2 {
			c.Case(vpC08Fp(fp)+fmt.Sprint(len(all)), aliasing, cl...)
		}
	})
	c.Set("transport_troubles", troubles)
	if troubles > 5 && troubles*10 > cases {
		kit.Inconclusive(t, "%d transport troubles on loopback in %d cases", troubles, cases)
	}
}
