//go:build verif

package p2p

import (
	"bytes"
	"context"
	"encoding/binary"
	"errors"
	"fmt"
	"io"
	"math/rand/v2"
	"runtime"
	"strings"
	"testing"
	"time"

	"pgregory.net/rapid"
	kit "verifkit"
)

// Framing half of C31: QuicClient.Send / Receive / receiveWithLimit over one
// real loopback QUIC connection (the stream field is a concrete *quic.Stream,
// so there is no in-memory seam; everything below uses 127.0.0.1 only).

const (
	vpC31Guard      = 90 * time.Second // liveness guard only: expiry => inconclusive, never a violation
	vpC31AllocBound = 8 << 20          // a rejected oversize header may not cost more heap than this (announced sizes are > 32 MiB)
)

type vpC31Pair struct {
	relayer *QuicRelayer
	dialer  *QuicClient // the side that dialed (consumer)
	accept  *QuicClient // the side that accepted (relayer)
}

func (p *vpC31Pair) close() {
	if p.dialer != nil {
		p.dialer.Close("vp done")
	}
	if p.accept != nil {
		p.accept.Close("vp done")
	}
	if p.relayer != nil {
		_ = p.relayer.Close()
	}
}

// side 0 = dialer sends, accepted side receives; side 1 = the reverse
func (p *vpC31Pair) ends(dir int) (src, dst *QuicClient) {
	if dir == 0 {
		return p.dialer, p.accept
	}
	return p.accept, p.dialer
}

type vpC31Trouble struct{ what string } // environment trouble (setup, liveness, transport I/O): inconclusive

func (e *vpC31Trouble) Error() string { return e.what }

func vpC31Troublef(format string, args ...any) error {
	return &vpC31Trouble{fmt.Sprintf(format, args...)}
}

// vpC31IsSizeVerdict reports whether err is one of the framing layer's own
// verdicts (as opposed to a transport I/O error or a deadline).
func vpC31IsSizeVerdict(err error) bool {
	if err == nil {
		return false
	}
	s := err.Error()
	return strings.Contains(s, "invalid message size") || strings.Contains(s, "invalid size limit") ||
		strings.Contains(s, "invalid message version") || strings.Contains(s, "invalid message header") ||
		errors.Is(err, io.ErrShortWrite)
}

func vpC31NewPair() (*vpC31Pair, error) {
	p := &vpC31Pair{}
	relayer, err := NewQuicRelayer("127.0.0.1:0")
	if err != nil {
		return nil, vpC31Troublef("NewQuicRelayer on loopback: %v", err)
	}
	p.relayer = relayer
	ctx, cancel := context.WithTimeout(context.Background(), vpC31Guard)
	defer cancel()
	type acc struct {
		c   Client
		err error
	}
	ch := make(chan acc, 1)
	go func() {
		c, err := relayer.Accept(ctx)
		ch <- acc{c, err}
	}()
	dialer, err := NewQuicConsumer(ctx, relayer.listener.Addr().String())
	if err != nil {
		p.close()
		return nil, vpC31Troublef("NewQuicConsumer on loopback: %v", err)
	}
	p.dialer = dialer
	// the accepting side only sees the stream once data flows on it
	hello := []byte("vp hello")
	if err := dialer.Send(hello); err != nil {
		p.close()
		return nil, vpC31Troublef("first send: %v", err)
	}
	select {
	case a := <-ch:
		if a.err != nil {
			p.close()
			return nil, vpC31Troublef("Accept on loopback: %v", a.err)
		}
		p.accept = a.c.(*QuicClient)
	case <-time.After(vpC31Guard):
		p.close()
		return nil, vpC31Troublef("Accept did not return")
	}
	m, err := vpC31Recv(p.accept, TransportMessageMaxSize)
	if err != nil {
		p.close()
		return nil, err
	}
	if m.err != nil && !vpC31IsSizeVerdict(m.err) {
		p.close()
		return nil, vpC31Troublef("hello frame: %v", m.err)
	}
	if m.err != nil || m.msg == nil || !bytes.Equal(m.msg.Data, hello) {
		p.close()
		return nil, fmt.Errorf("first frame (%d bytes) of the connection was not delivered intact: %v", len(hello), m.err)
	}
	return p, nil
}

type vpC31Received struct {
	msg   *TransportMessage
	err   error
	alloc uint64 // bytes allocated process-wide while the receive call ran
}

// vpC31Recv runs receiveWithLimit under the liveness guard and measures the
// heap bytes allocated during the call.
func vpC31Recv(c *QuicClient, limit uint32) (*vpC31Received, error) {
	ch := make(chan *vpC31Received, 1)
	go func() {
		var ms runtime.MemStats
		runtime.ReadMemStats(&ms)
		before := ms.TotalAlloc
		var m *TransportMessage
		var err error
		if limit == TransportMessageMaxSize {
			m, err = c.Receive()
		} else {
			m, err = c.receiveWithLimit(limit)
		}
		runtime.ReadMemStats(&ms)
		ch <- &vpC31Received{msg: m, err: err, alloc: ms.TotalAlloc - before}
	}()
	select {
	case r := <-ch:
		return r, nil
	case <-time.After(vpC31Guard):
		return nil, vpC31Troublef("receive did not return within %v", vpC31Guard)
	}
}

func vpC31Await(what string, f func() error) (error, error) {
	ch := make(chan error, 1)
	go func() { ch <- f() }()
	select {
	case err := <-ch:
		return err, nil
	case <-time.After(vpC31Guard):
		return nil, vpC31Troublef("%s did not return within %v", what, vpC31Guard)
	}
}

// vpC31Fill fills a buffer of n bytes deterministically from a drawn seed.
func vpC31Fill(seed uint64, n int) []byte {
	var s [32]byte
	binary.LittleEndian.PutUint64(s[:], seed)
	binary.LittleEndian.PutUint64(s[8:], uint64(n))
	buf := make([]byte, n)
	_, _ = rand.NewChaCha8(s).Read(buf)
	return buf
}

// vpC31Kept remembers the last messages Receive returned in the running case
// together with what had been sent: a delivered message must stay what it was
// when later frames arrive on the same connection (the node queues received
// messages for its handlers and for the next hop while it keeps receiving).
type vpC31KeptMsg struct {
	msg  *TransportMessage
	want []byte
}

var vpC31Kept []vpC31KeptMsg

func vpC31Keep(msg *TransportMessage, want []byte) {
	vpC31Kept = append(vpC31Kept, vpC31KeptMsg{msg, want})
	if len(vpC31Kept) > 3 {
		vpC31Kept = vpC31Kept[len(vpC31Kept)-3:]
	}
}

func vpC31CheckKept(after int) error {
	for i, k := range vpC31Kept {
		if int(k.msg.Size) != len(k.want) || !bytes.Equal(k.msg.Data, k.want) {
			j := 0
			for j < len(k.want) && j < len(k.msg.Data) && k.want[j] == k.msg.Data[j] {
				j++
			}
			return fmt.Errorf("a delivered frame of %d bytes (%d frames ago) changed after a later frame of %d bytes was received on the connection: size %d, %d data bytes, first difference at %d",
				len(k.want), len(vpC31Kept)-i, after, k.msg.Size, len(k.msg.Data), j)
		}
	}
	return nil
}

// vpC31Transfer sends data from src and receives it at dst with the given
// limit. A violation is returned as a plain error, trouble as *vpC31Trouble.
// wantReject: the frame is larger than the limit, the receiver must refuse it
// without consuming the body.
func vpC31Transfer(src, dst *QuicClient, data []byte, limit uint32) error {
	wantReject := uint32(len(data)) > limit
	sendCh := make(chan error, 1)
	// an accepted frame is followed at once by a short trailer frame on the same
	// stream: bytes a sender failed to write for the first frame would be made
	// up from the trailer's header, so a short write shows as wrong content, not
	// as a receiver waiting for its deadline
	trailer := []byte(fmt.Sprintf("trailer-%08x", len(data)))
	go func() {
		err := src.Send(data)
		if err == nil && !wantReject {
			err = src.Send(trailer)
		}
		sendCh <- err
	}()
	r, trouble := vpC31Recv(dst, limit)
	if trouble != nil {
		return trouble
	}
	waitSend := func() error {
		select {
		case sendErr := <-sendCh:
			if sendErr == nil {
				return nil
			}
			if vpC31IsSizeVerdict(sendErr) {
				return fmt.Errorf("Send refused a %d byte frame (maximum %d): %v", len(data), TransportMessageMaxSize, sendErr)
			}
			return vpC31Troublef("send of %d bytes: %v", len(data), sendErr)
		case <-time.After(vpC31Guard):
			return vpC31Troublef("send of %d bytes did not return", len(data))
		}
	}
	if wantReject {
		if r.err == nil {
			return fmt.Errorf("frame of %d bytes accepted with receive limit %d", len(data), limit)
		}
		if !vpC31IsSizeVerdict(r.err) {
			return vpC31Troublef("receive (limit %d) of %d byte frame: %v", limit, len(data), r.err)
		}
		if r.msg != nil {
			return fmt.Errorf("rejected frame of %d bytes (limit %d) still returned a message with %d data bytes", len(data), limit, len(r.msg.Data))
		}
		// the body must still be unread on the stream, from its first byte
		// (draining it also lets a sender blocked on flow control finish)
		body := make([]byte, len(data))
		rerr, trouble := vpC31Await("drain", func() error {
			if err := dst.stream.SetReadDeadline(time.Now().Add(vpC31Guard)); err != nil {
				return err
			}
			_, err := io.ReadFull(dst.stream, body)
			return err
		})
		if trouble != nil {
			return trouble
		}
		if err := waitSend(); err != nil {
			return err
		}
		if rerr != nil {
			return fmt.Errorf("after rejecting a %d byte frame (limit %d) the body is no longer fully on the stream: %v", len(data), limit, rerr)
		}
		if !bytes.Equal(body, data) {
			return fmt.Errorf("after rejecting a %d byte frame (limit %d) the stream does not continue with the untouched body", len(data), limit)
		}
		return nil
	}
	if err := waitSend(); err != nil {
		return err
	}
	if r.err != nil {
		if vpC31IsSizeVerdict(r.err) {
			return fmt.Errorf("frame of %d bytes rejected with receive limit %d: %v", len(data), limit, r.err)
		}
		return vpC31Troublef("receive of %d byte frame: %v", len(data), r.err)
	}
	if r.msg == nil {
		return fmt.Errorf("receive of %d byte frame returned neither message nor error", len(data))
	}
	if r.msg.Version != TransportMessageVersion || int(r.msg.Size) != len(data) {
		return fmt.Errorf("frame of %d bytes received with version %d size %d", len(data), r.msg.Version, r.msg.Size)
	}
	if !bytes.Equal(r.msg.Data, data) {
		i := 0
		for i < len(data) && i < len(r.msg.Data) && data[i] == r.msg.Data[i] {
			i++
		}
		return fmt.Errorf("frame of %d bytes received as %d bytes, first difference at %d", len(data), len(r.msg.Data), i)
	}
	r2, trouble := vpC31Recv(dst, TransportMessageMaxSize)
	if trouble != nil {
		return trouble
	}
	if r2.err != nil {
		if vpC31IsSizeVerdict(r2.err) || strings.Contains(r2.err.Error(), "invalid message version") {
			return fmt.Errorf("the frame following a %d byte frame is not parsed as a frame: %v", len(data), r2.err)
		}
		return vpC31Troublef("receive of the trailer after a %d byte frame: %v", len(data), r2.err)
	}
	if r2.msg == nil || !bytes.Equal(r2.msg.Data, trailer) {
		return fmt.Errorf("the frame following a %d byte frame was not delivered intact", len(data))
	}
	if err := vpC31CheckKept(len(data)); err != nil {
		return err
	}
	vpC31Keep(r.msg, data)
	return vpC31CheckKept(len(trailer))
}

// vpC31OversizeHeader writes a raw header announcing `announced` bytes
// (> limit) followed by a well-formed small frame, and checks that the
// receiver refuses the header without allocating or reading a body, i.e. the
// next Receive yields the follow-up frame.
func vpC31OversizeHeader(src, dst *QuicClient, announced uint32, limit uint32, follow []byte) error {
	header := []byte{TransportMessageVersion, 0, 0, 0, 0, 0}
	binary.BigEndian.PutUint32(header[2:], announced)
	werr, trouble := vpC31Await("raw header write", func() error {
		if err := src.stream.SetWriteDeadline(time.Now().Add(vpC31Guard)); err != nil {
			return err
		}
		_, err := src.stream.Write(header)
		return err
	})
	if trouble != nil {
		return trouble
	}
	if werr != nil {
		return vpC31Troublef("raw header write: %v", werr)
	}
	serr, trouble := vpC31Await("follow-up send", func() error { return src.Send(follow) })
	if trouble != nil {
		return trouble
	}
	if serr != nil {
		return vpC31Troublef("follow-up send: %v", serr)
	}
	r, trouble := vpC31Recv(dst, limit)
	if trouble != nil {
		return trouble
	}
	if announced > 32<<20 && r.alloc > vpC31AllocBound {
		return fmt.Errorf("header announcing %d bytes (limit %d): %d bytes were allocated before the frame was refused (err=%v)", announced, limit, r.alloc, r.err)
	}
	if r.err == nil {
		return fmt.Errorf("header announcing %d bytes accepted with limit %d", announced, limit)
	}
	if !vpC31IsSizeVerdict(r.err) {
		return vpC31Troublef("receive after oversize header: %v", r.err)
	}
	if r.msg != nil {
		return fmt.Errorf("refused header announcing %d bytes still returned a message (%d data bytes)", announced, len(r.msg.Data))
	}
	r2, trouble := vpC31Recv(dst, TransportMessageMaxSize)
	if trouble != nil {
		return trouble
	}
	if r2.err != nil || r2.msg == nil || !bytes.Equal(r2.msg.Data, follow) {
		if r2.err != nil && !vpC31IsSizeVerdict(r2.err) {
			return vpC31Troublef("receive of the frame following a refused header: %v", r2.err)
		}
		return fmt.Errorf("after refusing a header announcing %d bytes the next frame (%d bytes) was not delivered intact: %v", announced, len(follow), r2.err)
	}
	return nil
}

// vpC31Truncated: the sender announces n bytes, writes only k < n of them and
// then finishes its stream gracefully (a write deadline firing inside a large
// bundle followed by shutdown does this). What arrived is not the message.
func vpC31Truncated(src, dst *QuicClient, n, k int, seed uint64) error {
	header := []byte{TransportMessageVersion, 0, 0, 0, 0, 0}
	binary.BigEndian.PutUint32(header[2:], uint32(n))
	body := vpC31Fill(seed, n)[:k]
	// the writer runs beside the receiver: a large body only drains while
	// somebody reads it (stream flow control)
	wch := make(chan error, 1)
	go func() {
		if err := src.stream.SetWriteDeadline(time.Now().Add(vpC31Guard)); err != nil {
			wch <- err
			return
		}
		if _, err := src.stream.Write(append(header, body...)); err != nil {
			wch <- err
			return
		}
		wch <- src.stream.Close()
	}()
	r, trouble := vpC31Recv(dst, TransportMessageMaxSize)
	if trouble != nil {
		return trouble
	}
	select {
	case werr := <-wch:
		if werr != nil {
			return vpC31Troublef("truncated frame write: %v", werr)
		}
	case <-time.After(vpC31Guard):
		return vpC31Troublef("truncated frame write did not return")
	}
	if r.err == nil {
		got := -1
		if r.msg != nil {
			got = len(r.msg.Data)
		}
		return fmt.Errorf("a frame announcing %d bytes of which %d were sent before the stream ended was delivered as a message (%d data bytes)", n, k, got)
	}
	return nil
}

var vpC31Big []byte // TransportMessageMaxSize+64 bytes, allocated once

func vpC31BigBuf() []byte {
	if vpC31Big == nil {
		vpC31Big = vpC31Fill(31, TransportMessageMaxSize+64)
	}
	return vpC31Big
}

// vpC31SendRefused checks that Send refuses n > max bytes without writing
// anything: a receiver already waiting on the other end must see the follow-up
// frame as the very next thing on the stream.
func vpC31SendRefused(src, dst *QuicClient, n int, follow []byte) error {
	type recvd struct {
		r       *vpC31Received
		trouble error
	}
	recvCh := make(chan recvd, 1)
	go func() {
		r, trouble := vpC31Recv(dst, TransportMessageMaxSize)
		recvCh <- recvd{r, trouble}
	}()
	sendCh := make(chan error, 1)
	go func() { sendCh <- src.Send(vpC31BigBuf()[:n]) }()
	leaked := func(got recvd) error {
		if got.trouble != nil {
			return got.trouble
		}
		return fmt.Errorf("Send of %d bytes (maximum %d) put bytes on the stream: the receiver saw msg=%v err=%v before any legal frame was sent",
			n, TransportMessageMaxSize, got.r.msg != nil, got.r.err)
	}
	select {
	case got := <-recvCh:
		return leaked(got)
	case serr := <-sendCh:
		if serr == nil {
			return fmt.Errorf("Send accepted %d bytes (maximum %d)", n, TransportMessageMaxSize)
		}
		if !vpC31IsSizeVerdict(serr) {
			select {
			case got := <-recvCh:
				return leaked(got)
			default:
			}
			return vpC31Troublef("oversize send: %v", serr)
		}
	case <-time.After(vpC31Guard):
		return vpC31Troublef("oversize send did not return")
	}
	serr, trouble := vpC31Await("follow-up send", func() error { return src.Send(follow) })
	if trouble != nil {
		return trouble
	}
	if serr != nil {
		return vpC31Troublef("follow-up send: %v", serr)
	}
	select {
	case got := <-recvCh:
		if got.trouble != nil {
			return got.trouble
		}
		if got.r.err != nil && !vpC31IsSizeVerdict(got.r.err) {
			return vpC31Troublef("receive after refused send: %v", got.r.err)
		}
		if got.r.err != nil || got.r.msg == nil || !bytes.Equal(got.r.msg.Data, follow) {
			return fmt.Errorf("after Send refused %d bytes the next frame (%d bytes) was not delivered intact: %v", n, len(follow), got.r.err)
		}
		return nil
	case <-time.After(vpC31Guard):
		return vpC31Troublef("receive after refused send did not return")
	}
}

// vpC31BadLimit: limits outside 1..TransportMessageMaxSize are refused at once,
// before the stream is touched (no transport error is possible on that path).
func vpC31BadLimit(dst *QuicClient, bad uint32) error {
	r, trouble := vpC31Recv(dst, bad)
	if trouble != nil {
		return trouble
	}
	if r.err == nil || r.msg != nil || !vpC31IsSizeVerdict(r.err) {
		return fmt.Errorf("receiveWithLimit(%d) did not refuse the limit: msg=%v err=%v", bad, r.msg != nil, r.err)
	}
	return nil
}

func vpC31Size(t *rapid.T, label string) int {
	gens := []*rapid.Generator[int]{
		rapid.IntRange(1, 64),
		rapid.IntRange(65, 64<<10),
		rapid.IntRange(64<<10+1, 1<<20),
		rapid.IntRange(1<<20+1, 4<<20),
		rapid.SampledFrom([]int{1, 2, 5, 6, 7, 1199, 1200, 1201, 1<<16 - 1, 1 << 16, 1<<16 + 1, 1<<20 - 1, 1 << 20, 1<<20 + 1, 4<<20 - 1, 4 << 20}),
	}
	if kit.Thorough() && rapid.IntRange(0, 7).Draw(t, label+"_huge") == 0 {
		return rapid.OneOf(rapid.IntRange(4<<20+1, TransportMessageMaxSize),
			rapid.SampledFrom([]int{TransportMessageMaxSize - 1, TransportMessageMaxSize, 16 << 20, 16<<20 + 1})).Draw(t, label+"_hugesize")
	}
	return rapid.OneOf(gens...).Draw(t, label)
}

func vpC31SizeClass(n int) string {
	switch {
	case n <= 64:
		return "size<=64B"
	case n <= 64<<10:
		return "size<=64KiB"
	case n <= 1<<20:
		return "size<=1MiB"
	case n <= 4<<20:
		return "size<=4MiB"
	default:
		return "size>4MiB"
	}
}

// vpC31Run carries the trouble accounting of one test function. Transport
// trouble (setup failure, I/O error, the code's own 10 s / 20 s stream
// deadlines under machine load, liveness guard) never counts as a violation:
// the affected step is abandoned together with its connection and counted; more
// than vpC31TroubleBudget of them make the run inconclusive.
type vpC31Run struct {
	outer    *testing.T
	c        *kit.Collector
	troubles int
	dead     bool
}

const vpC31TroubleBudget = 3

// settle decides what a step result means. It returns false when the pair can
// no longer be used.
func (r *vpC31Run) settle(rt *rapid.T, err error) bool {
	if err == nil {
		return true
	}
	var tr *vpC31Trouble
	if errors.As(err, &tr) {
		r.troubles++
		r.c.Class("transport-trouble-abandoned-step")
		fmt.Printf("vp C31: transport trouble %d: %s\n", r.troubles, tr.what)
		if r.troubles > vpC31TroubleBudget && !r.dead {
			r.dead = true
			kit.Inconclusive(r.outer, "loopback QUIC trouble (%d steps abandoned), last: %s", r.troubles, tr.what)
		}
		return false
	}
	if rt != nil {
		rt.Fatalf("%v", err)
	} else {
		r.outer.Fatalf("%v", err)
	}
	return false
}

func TestVP_C31_frame_roundtrip(t *testing.T) {
	c := kit.New(t, "C31", "rapid: per case a fresh loopback QUIC pair and 3..8 drawn steps: frames of 1 B..4 MiB (thorough: ..32 MiB, incl. max-1/max) with seed-derived content in either direction through Send -> Receive; receiveWithLimit with a drawn limit and frame sizes at limit-1/limit/limit+1; raw headers announcing limit+1..2^32-1 bytes followed by a valid frame; Send of max+1.. bytes; a frame of which only 0..n-1 bytes are written before the sender finishes its stream (last step of a pair); bursts of 2..3 frames (mostly >= 1 MiB) in one direction. Oracle: the last three delivered messages of the case are compared again with what was sent after every later delivery (a delivered message does not change when later frames arrive); a truncated frame is never delivered as a message; identical bytes/size/version; over-limit refused with the size verdict, no message, body left unread on the stream, < 8 MiB allocated for announcements > 32 MiB; Send refuses > max and writes nothing. non-trivial = frame >= 64 KiB delivered or a refusal observed; distinct by (step kind, size, seed, limit)")
	c.Require("roundtrip", "burst", "burst-of-large-frames", "limit-accept", "limit-reject", "oversize-header", "send-refused", "bad-limit", "truncated",
		"size<=64B", "size<=64KiB", "size<=1MiB", "size<=4MiB", "dir-dialer-sends", "dir-acceptor-sends")
	if kit.Thorough() {
		c.Require("size>4MiB")
	}
	c.Assume("loopback UDP (127.0.0.1) is available to the test process; a step that ends in a transport I/O error, one of the code's own stream deadlines or the liveness guard is abandoned and counted (class transport-trouble-abandoned-step); more than 3 of them make the run inconclusive; none is ever reported as a violation")
	kit.SetChecks(kit.N(40, 1600))
	run := &vpC31Run{outer: t, c: c}
	rapid.Check(t, func(rt *rapid.T) {
		if run.dead {
			return
		}
		steps := rapid.IntRange(3, 8).Draw(rt, "steps")
		vpC31Kept = nil
		defer func() { vpC31Kept = nil }()
		pair, err := vpC31NewPair()
		if !run.settle(rt, err) {
			return
		}
		defer pair.close()
		for i := 0; i < steps; i++ {
			l := fmt.Sprintf("s%d_", i)
			dir := rapid.IntRange(0, 1).Draw(rt, l+"dir")
			src, dst := pair.ends(dir)
			dirClass := []string{"dir-dialer-sends", "dir-acceptor-sends"}[dir]
			seed := rapid.Uint64().Draw(rt, l+"seed")
			switch rapid.SampledFrom([]string{"roundtrip", "roundtrip", "roundtrip", "burst", "limit", "limit", "oversize-header", "send-refused", "bad-limit", "truncated"}).Draw(rt, l+"op") {
			case "roundtrip":
				n := vpC31Size(rt, l+"size")
				if !run.settle(rt, vpC31Transfer(src, dst, vpC31Fill(seed, n), TransportMessageMaxSize)) {
					return
				}
				c.Case(fmt.Sprintf("rt-%d-%d-%d", dir, n, seed), n >= 64<<10, "roundtrip", vpC31SizeClass(n), dirClass)
				c.Sample(map[string]any{"step": "roundtrip", "bytes": n, "dir": dir})
			case "burst":
				// 2..3 frames in one direction; every delivered message is compared
				// again after the later ones have been received
				count := rapid.IntRange(2, 3).Draw(rt, l+"burst")
				n0 := rapid.OneOf(rapid.IntRange(1<<20, 4<<20), rapid.SampledFrom([]int{1 << 20, 1<<20 + 1, 2 << 20, 3<<20 + 17})).Draw(rt, l+"burst_size")
				if rapid.IntRange(0, 3).Draw(rt, l+"burst_any") == 0 {
					n0 = vpC31Size(rt, l+"size")
				}
				large := 0
				for b := 0; b < count; b++ {
					n := n0
					switch rapid.IntRange(0, 3).Draw(rt, fmt.Sprintf("%sburst_%d", l, b)) {
					case 0:
						n = n0/2 + 1
					case 1:
						n = vpC31Size(rt, fmt.Sprintf("%sburst_size_%d", l, b))
					}
					if n >= 1<<20 {
						large++
					}
					if !run.settle(rt, vpC31Transfer(src, dst, vpC31Fill(seed+uint64(b), n), TransportMessageMaxSize)) {
						return
					}
				}
				cls := []string{"burst", dirClass}
				if large >= 2 {
					cls = append(cls, "burst-of-large-frames")
				}
				c.Case(fmt.Sprintf("burst-%d-%d-%d-%d", dir, count, n0, seed), true, cls...)
				c.Sample(map[string]any{"step": "burst", "frames": count, "bytes": n0, "dir": dir})
			case "limit":
				limit := rapid.OneOf(rapid.SampledFrom([]int{1, 2, 6, 100, 4096, 1 << 16, 1 << 20}), rapid.IntRange(1, 2<<20)).Draw(rt, l+"limit")
				n := rapid.OneOf(rapid.SampledFrom([]int{limit - 1, limit, limit + 1, limit + 2, 2 * limit}), rapid.IntRange(1, 2*limit+2)).Draw(rt, l+"size")
				if n < 1 {
					n = 1
				}
				if !run.settle(rt, vpC31Transfer(src, dst, vpC31Fill(seed, n), uint32(limit))) {
					return
				}
				cls := "limit-accept"
				if n > limit {
					cls = "limit-reject"
				}
				c.Case(fmt.Sprintf("lim-%d-%d-%d-%d", dir, limit, n, seed), n > limit || n >= 64<<10, cls, vpC31SizeClass(n), dirClass)
			case "oversize-header":
				limit := uint32(TransportMessageMaxSize)
				announced := rapid.OneOf(
					rapid.Uint32Range(TransportMessageMaxSize+1, TransportMessageMaxSize+16),
					rapid.Uint32Range(TransportMessageMaxSize+1, 256<<20),
					rapid.SampledFrom([]uint32{TransportMessageMaxSize + 1, 2 * TransportMessageMaxSize, 64 << 20, 0x7fffffff, 0x80000000, 0xffffffff}),
				).Draw(rt, l+"announced")
				if rapid.IntRange(0, 3).Draw(rt, l+"small_limit") == 0 {
					// same header against a smaller per-call limit
					limit = uint32(rapid.IntRange(1, 1<<20).Draw(rt, l+"limit"))
				}
				follow := vpC31Fill(seed, rapid.IntRange(1, 4096).Draw(rt, l+"follow"))
				if !run.settle(rt, vpC31OversizeHeader(src, dst, announced, limit, follow)) {
					return
				}
				c.Case(fmt.Sprintf("hdr-%d-%d-%d", dir, announced, limit), true, "oversize-header", dirClass)
				c.Sample(map[string]any{"step": "oversize-header", "announced": announced, "limit": limit})
			case "send-refused":
				n := TransportMessageMaxSize + rapid.IntRange(1, 64).Draw(rt, l+"over")
				follow := vpC31Fill(seed, rapid.IntRange(1, 4096).Draw(rt, l+"follow"))
				if !run.settle(rt, vpC31SendRefused(src, dst, n, follow)) {
					return
				}
				c.Case(fmt.Sprintf("big-%d-%d", dir, n), true, "send-refused", dirClass)
			case "truncated":
				n := vpC31Size(rt, l+"size")
				if n < 2 {
					n = 2
				}
				k := rapid.OneOf(rapid.SampledFrom([]int{0, 1, n - 1, n / 2}), rapid.IntRange(0, n-1)).Draw(rt, l+"sent")
				if !run.settle(rt, vpC31Truncated(src, dst, n, k, seed)) {
					return
				}
				c.Case(fmt.Sprintf("trunc-%d-%d-%d", dir, n, k), true, "truncated", dirClass)
				return // the sending side of this pair is finished
			case "bad-limit":
				// limits outside 1..max are refused without touching the stream
				bad := rapid.SampledFrom([]uint32{0, TransportMessageMaxSize + 1, 0xffffffff}).Draw(rt, l+"bad")
				if !run.settle(rt, vpC31BadLimit(dst, bad)) {
					return
				}
				follow := vpC31Fill(seed, rapid.IntRange(1, 4096).Draw(rt, l+"follow"))
				if !run.settle(rt, vpC31Transfer(src, dst, follow, TransportMessageMaxSize)) {
					return
				}
				c.Case(fmt.Sprintf("badlim-%d-%d-%d", dir, bad, seed), true, "bad-limit", dirClass)
			}
		}
	})
}

// TestVP_C31_frame_limits walks the exact boundaries once, deterministically.
func TestVP_C31_frame_limits(t *testing.T) {
	if kit.Replaying() {
		return
	}
	c := kit.New(t, "C31", "deterministic boundary walk on one loopback QUIC pair: frames of 1, 2, 5, 6, 7, 1199..1201, 2^16-1..2^16+1, 2^20-1..2^20+1, 4 MiB and exactly TransportMessageMaxSize-1 / TransportMessageMaxSize bytes in both directions; Send of max+1 and max+64 bytes; headers announcing max+1, max+2, 2*max, 2^31-1, 2^31, 2^32-1; non-trivial = frame >= 64 KiB or a refusal; distinct by (kind, size, direction)")
	c.Require("roundtrip", "frame=max", "frame=max-1", "send-refused", "oversize-header")
	run := &vpC31Run{outer: t, c: c}
	pair, err := vpC31NewPair()
	if !run.settle(nil, err) {
		return
	}
	defer pair.close()
	sizes := []int{1, 2, 5, 6, 7, 1199, 1200, 1201, 1<<16 - 1, 1 << 16, 1<<16 + 1, 1<<20 - 1, 1 << 20, 1<<20 + 1, 4 << 20,
		TransportMessageMaxSize - 1, TransportMessageMaxSize}
	for i, n := range sizes {
		for dir := 0; dir < 2; dir++ {
			if n >= TransportMessageMaxSize-1 && dir != i%2 {
				continue // the two largest frames travel once each, in opposite directions
			}
			src, dst := pair.ends(dir)
			if !run.settle(nil, vpC31Transfer(src, dst, vpC31Fill(uint64(1000+i), n), TransportMessageMaxSize)) {
				return
			}
			classes := []string{"roundtrip", vpC31SizeClass(n)}
			if n == TransportMessageMaxSize {
				classes = append(classes, "frame=max")
			}
			if n == TransportMessageMaxSize-1 {
				classes = append(classes, "frame=max-1")
			}
			c.Case(fmt.Sprintf("walk-%d-%d", dir, n), n >= 64<<10, classes...)
		}
	}
	for dir := 0; dir < 2; dir++ {
		src, dst := pair.ends(dir)
		for _, over := range []int{1, 64} {
			if !run.settle(nil, vpC31SendRefused(src, dst, TransportMessageMaxSize+over, []byte("after refused send"))) {
				return
			}
			c.Case(fmt.Sprintf("walk-big-%d-%d", dir, over), true, "send-refused")
		}
		for _, announced := range []uint32{TransportMessageMaxSize + 1, TransportMessageMaxSize + 2, 2 * TransportMessageMaxSize, 0x7fffffff, 0x80000000, 0xffffffff} {
			if !run.settle(nil, vpC31OversizeHeader(src, dst, announced, TransportMessageMaxSize, []byte("after refused header"))) {
				return
			}
			c.Case(fmt.Sprintf("walk-hdr-%d-%d", dir, announced), true, "oversize-header")
		}
	}
}
