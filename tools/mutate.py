#!/usr/bin/env python3
"""Sensitivity runner: apply each deliberately broken variant listed in
tools/mutants.json to a scratch copy of /repo (never to /repo itself), run the
property's check against the copy and record CAUGHT / MISSED.

  tools/mutate.py [-j N] [--tier quick|thorough] [--suite] [--only ID[,ID..]] [--prop Cxx[,..]] [--pending]

Each mutant: {"id","prop","file","find","replace","note"[, "tier"]}; "find" must
occur exactly once in the file (or "nth": k picks the k-th occurrence).
Alternatively {"id","prop","patch": "<path to diff>"}.
--suite additionally runs the repository's own tests of the touched package on
the mutated copy (does the change survive the existing suite?).
Results are merged into tools/mutants_results.json.
"""
import json
import os
import shutil
import subprocess
import sys
import time
from concurrent.futures import ThreadPoolExecutor

VERIF = os.path.dirname(os.path.dirname(os.path.abspath(__file__)))
REPO = "/repo"
RESULTS = os.path.join(VERIF, "tools", "mutants_results.json")


def load_results():
    try:
        return json.load(open(RESULTS))
    except Exception:
        return {}


def go_env():
    env = dict(os.environ)
    env["GOFLAGS"] = "-mod=mod"
    env["GOPROXY"] = "off"
    env.pop("GOTOOLCHAIN", None)
    env.pop("GOSUMDB", None)
    return env


def apply(m, root):
    if "patch" in m:
        p = subprocess.run(["git", "apply", "--unsafe-paths", "--directory=" + root, os.path.abspath(os.path.join(VERIF, m["patch"]))],
                           cwd="/", capture_output=True, text=True)
        if p.returncode != 0:
            p = subprocess.run(["patch", "-p1", "-s", "-i", os.path.abspath(os.path.join(VERIF, m["patch"]))], cwd=root, capture_output=True, text=True)
        return p.returncode == 0, p.stderr + p.stdout
    edits = m.get("edits") or [m]
    for e in edits:
        path = os.path.join(root, e["file"])
        s = open(path).read()
        n = s.count(e["find"])
        nth = e.get("nth")
        if nth is None:
            if n != 1:
                return False, "find occurs %d times in %s" % (n, e["file"])
            s = s.replace(e["find"], e["replace"])
        else:
            if n < nth:
                return False, "find occurs %d times (<%d) in %s" % (n, nth, e["file"])
            idx = -1
            for _ in range(nth):
                idx = s.index(e["find"], idx + 1)
            s = s[:idx] + e["replace"] + s[idx + len(e["find"]):]
        open(path, "w").write(s)
    return True, ""


def run_one(m, tier, suite):
    tag = "-mut-%s" % m["id"]
    root = "/tmp/vpmut-%s" % m["id"]
    shutil.rmtree(root, ignore_errors=True)
    subprocess.run(["rsync", "-a", "--exclude", ".git", REPO + "/", root + "/"], check=True)
    res = {"prop": m["prop"], "note": m.get("note", ""), "tier": tier, "at": time.strftime("%Y-%m-%d %H:%M")}
    ok, msg = apply(m, root)
    if not ok:
        res["result"] = "DID-NOT-APPLY"
        res["detail"] = msg[-300:]
        shutil.rmtree(root, ignore_errors=True)
        return m["id"], res
    env = go_env()
    b = subprocess.run(["go", "build", "./..."], cwd=root, env=env, capture_output=True, text=True)
    if b.returncode != 0:
        res["result"] = "DOES-NOT-COMPILE"
        res["detail"] = (b.stderr + b.stdout)[-400:]
        shutil.rmtree(root, ignore_errors=True)
        return m["id"], res
    if suite:
        pkgs = sorted({"./" + os.path.dirname(e["file"]) + "/" for e in (m.get("edits") or [m]) if "file" in e}) or ["./..."]
        s = subprocess.run(["go", "test", "-vet=off", "-count=1", "-timeout", "20m"] + pkgs, cwd=root, env=env, capture_output=True, text=True)
        res["existing_tests"] = "pass" if s.returncode == 0 else "FAIL"
        if s.returncode != 0:
            res["existing_tests_detail"] = [l for l in s.stdout.splitlines() if l.startswith("--- FAIL")][:5]
    env.update({"VERIF_REPO": root, "VERIF_RUN_TAG": tag})
    t0 = time.time()
    p = subprocess.run([os.path.join(VERIF, "check"), m["prop"], "--tier", tier], cwd=VERIF, env=env, capture_output=True, text=True)
    res["wall_s"] = round(time.time() - t0, 1)
    res["rc"] = p.returncode
    res["result"] = {0: "MISSED", 1: "CAUGHT", 2: "INCONCLUSIVE"}.get(p.returncode, "rc%d" % p.returncode)
    fails = [l for l in p.stdout.splitlines() if l.lstrip().startswith("--- FAIL")]
    res["failed_tests"] = sorted({l.split()[2].split("/")[0] for l in fails})[:6]
    if p.returncode == 2:
        res["detail"] = p.stdout[-600:]
    logdir = os.path.join("/tmp", "vpmut-logs")
    os.makedirs(logdir, exist_ok=True)
    open(os.path.join(logdir, m["id"] + ".log"), "w").write(p.stdout + p.stderr)
    shutil.rmtree(root, ignore_errors=True)
    shutil.rmtree(os.path.join(VERIF, ".build" + tag), ignore_errors=True)
    shutil.rmtree(os.path.join(VERIF, ".run" + tag), ignore_errors=True)
    return m["id"], res


def main():
    a = sys.argv[1:]
    jobs, tier, suite, only, props, pending = 3, "quick", False, None, None, False
    i = 0
    while i < len(a):
        if a[i] == "-j":
            jobs = int(a[i + 1]); i += 2
        elif a[i] == "--tier":
            tier = a[i + 1]; i += 2
        elif a[i] == "--suite":
            suite = True; i += 1
        elif a[i] == "--only":
            only = set(a[i + 1].split(",")); i += 2
        elif a[i] == "--prop":
            props = set(a[i + 1].split(",")); i += 2
        elif a[i] == "--pending":
            pending = True; i += 1
        else:
            print(__doc__); return 2
    muts = json.load(open(os.path.join(VERIF, "tools", "mutants.json")))
    results = load_results()
    sel = []
    for m in muts:
        if only and m["id"] not in only:
            continue
        if props and m["prop"] not in props:
            continue
        if pending and m["id"] in results and results[m["id"]].get("result") in ("CAUGHT",) and results[m["id"]].get("tier") == tier:
            continue
        sel.append(m)
    print("running %d mutants, %d at a time, tier %s" % (len(sel), jobs, tier))
    with ThreadPoolExecutor(max_workers=jobs) as ex:
        for mid, res in ex.map(lambda m: run_one(m, tier, suite), sel):
            results = load_results()
            prev = results.get(mid)
            if prev and prev.get("result") == "CAUGHT" and res["result"] != "CAUGHT" and prev.get("tier") != res.get("tier"):
                res["other_tier"] = {"tier": prev["tier"], "result": prev["result"]}
            results[mid] = res
            json.dump(results, open(RESULTS, "w"), indent=1, sort_keys=True)
            print("%-14s %-5s %-13s %6.1fs %s %s" % (mid, res["prop"], res["result"], res.get("wall_s", 0), res.get("existing_tests", ""), ",".join(res.get("failed_tests", []))))
            sys.stdout.flush()
    return 0


if __name__ == "__main__":
    sys.exit(main())
