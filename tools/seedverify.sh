#!/bin/bash
# usage: DEMO="src1:dest1 src2:dest2" DEMOCMD="go test -run X ./pkg/" tools/seedverify.sh <dir-with-patch.diff> <name> [pkgs...]
# Confirms an independently written change in a scratch worktree of /repo HEAD:
#  - demo passes on the unchanged tree, fails with the change
#  - the change builds and the existing test suite (given packages or ./...) still passes
# Results in <dir>/verify.txt. The worktree is removed afterwards.
set -u
D=$(realpath "$1"); NAME=$2; shift 2
PKGS=${@:-$(cd /repo && GOFLAGS=-mod=mod GOPROXY=off go list ./... | grep -v "mixin/rpc$" | sed "s|github.com/MixinNetwork/mixin|.|")}
export GOFLAGS=-mod=mod GOPROXY=off
unset GOTOOLCHAIN GOSUMDB
W=/tmp/sv/$NAME
rm -rf "$W"; git -C /repo worktree prune; mkdir -p /tmp/sv
git -C /repo worktree add -q --detach "$W" HEAD || exit 3
place_demo() { for p in ${DEMO:-}; do src=${p%%:*}; dst=${p#*:}; mkdir -p "$W/$(dirname "$dst")"; cp "$D/$src" "$W/$dst"; done; }
remove_demo() { for p in ${DEMO:-}; do dst=${p#*:}; rm -f "$W/$dst"; done; }
{
  if [ -n "${DEMOCMD:-}" ]; then
    echo "== demo on the unchanged tree (must pass)"
    place_demo
    (cd "$W" && eval "$DEMOCMD" 2>&1 | tail -n 15; exit ${PIPESTATUS[0]}); echo "demo-clean-exit=$?"
    remove_demo
  fi
  echo "== apply"
  (cd "$W" && git apply "$D/patch.diff") && echo APPLY-OK || echo "APPLY-FAILED"
  (cd "$W" && git status --short)
  echo "== build"
  (cd "$W" && go build ./... ) && echo BUILD-OK || echo BUILD-FAILED
  echo "== existing tests with the change: $PKGS"
  (cd "$W" && go test -vet=off -count=1 -timeout 25m $PKGS > /tmp/sv/$NAME.suite 2>&1; rc=$?
   if [ $rc != 0 ]; then
     # timing-sensitive tests (p2p integration) can fail on a loaded machine: re-run only the failing packages, up to twice
     FAILED=$(grep -E "^FAIL[[:space:]]+github.com" /tmp/sv/$NAME.suite | awk '{print $2}' | sed "s|github.com/MixinNetwork/mixin|.|")
     for try in 1 2; do
       [ -z "$FAILED" ] && break
       echo "retry $try of failing packages: $FAILED"
       go test -vet=off -count=1 -timeout 25m $FAILED > /tmp/sv/$NAME.retry 2>&1; rc=$?
       [ $rc = 0 ] && break
       FAILED=$(grep -E "^FAIL[[:space:]]+github.com" /tmp/sv/$NAME.retry | awk '{print $2}' | sed "s|github.com/MixinNetwork/mixin|.|")
     done
   fi
   echo "suite-exit=$rc"; grep -v "no test files" /tmp/sv/$NAME.suite | tail -n 25)
  if [ -n "${DEMOCMD:-}" ]; then
    echo "== demo with the change (must fail)"
    place_demo
    (cd "$W" && eval "$DEMOCMD" 2>&1 | tail -n 25; exit ${PIPESTATUS[0]}); echo "demo-changed-exit=$?"
    remove_demo
  fi
} > "$D/verify.txt" 2>&1
rm -f /tmp/sv/$NAME.suite
git -C /repo worktree remove --force "$W"
grep -E "demo-clean-exit|APPLY|BUILD|suite-exit|demo-changed-exit" "$D/verify.txt"
