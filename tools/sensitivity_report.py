#!/usr/bin/env python3
"""Regenerate DESIGN.md section 9 (between the SENSITIVITY markers) from
seeded/*/meta.json and tools/mutants_results.json + tools/mutants.json."""
import glob, json, os, re
V = os.path.dirname(os.path.dirname(os.path.abspath(__file__)))
out = []
out.append("### 9.1 Independently written seeded changes (`/verif/seeded/<id>/`)\n")
out.append("Each was written by a fresh sub-agent that saw only the property text and a scratch worktree, then confirmed here: the demonstration passes on the unchanged tree and fails with the change, the change builds, and the existing suite (every package; `rpc` TestConsensus excluded — BASELINE.json lists it as flaky, it is not one of the 308 pinned tests) still passes. `first` is the result of the quick tier when the change was first tried, `now` the result after the strengthening described in §9.3.\n")
out.append("| seed | what the change does (author's summary) | first | now | caught by |")
out.append("|---|---|---|---|---|")
first = {}
try:
    first = json.load(open(os.path.join(V, "seeded", "FIRST_RESULTS.json")))
except Exception:
    pass
for mf in sorted(glob.glob(os.path.join(V, "seeded", "*", "meta.json"))):
    m = json.load(open(mf))
    sid = os.path.basename(os.path.dirname(mf))
    det = m.get("detection", {})
    now = det.get("quick", {}).get("result", "?")
    if det.get("thorough"):
        now += " (thorough: %s)" % det["thorough"].get("result")
    tests = ", ".join(det.get("quick", {}).get("failed_tests", [])[:3]) or ", ".join(det.get("thorough", {}).get("failed_tests", [])[:3])
    summ = re.sub(r"\s+", " ", str(m.get("summary", "")))[:230].replace("|", "/")
    if not m.get("confirmed", False):
        now = "NOT CONFIRMED"
    out.append("| %s | %s | %s | %s | %s |" % (sid, summ, first.get(sid, now.split(" ")[0]), now, tests.replace("TestVP_", "")))
out.append("")
out.append("### 9.2 Own mutants (`tools/mutants.json`, run with `tools/mutate.py --suite`)\n")
out.append("`suite` = do the repository's own tests of the touched package still pass with the mutant (pass = the mutant survives the existing suite).\n")
out.append("| mutant | property | change | existing suite | quick tier | caught by |")
out.append("|---|---|---|---|---|---|")
muts = {m["id"]: m for m in json.load(open(os.path.join(V, "tools", "mutants.json")))}
res = json.load(open(os.path.join(V, "tools", "mutants_results.json")))
for mid in sorted(muts):
    r = res.get(mid)
    if not r:
        continue
    out.append("| %s | %s | %s | %s | %s | %s |" % (mid, muts[mid]["prop"], muts[mid]["note"].replace("|", "/"), r.get("existing_tests", "-"), r["result"] + (" (%s tier)" % r["tier"] if r.get("tier") != "quick" else ""), ", ".join(r.get("failed_tests", [])[:3]).replace("TestVP_", "")))
out.append("")
p = os.path.join(V, "DESIGN.md")
s = open(p).read()
a, b = "<!-- SENSITIVITY:BEGIN -->", "<!-- SENSITIVITY:END -->"
if a not in s:
    s += "\n## 9. Sensitivity: which checks catch which changes\n\n" + a + "\n" + b + "\n"
s = s[:s.index(a) + len(a)] + "\n" + "\n".join(out) + "\n" + s[s.index(b):]
open(p, "w").write(s)
print("seeds:", len(glob.glob(os.path.join(V, "seeded", "*", "meta.json"))), "mutants with results:", len([m for m in muts if m in res]))
