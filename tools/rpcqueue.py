#!/usr/bin/env python3
"""Serial queue: run the rpc package tests (TestConsensus binds fixed UDP ports, so only one run
at a time) on every kept seeded change whose meta.json says rpc_package == "queued".
Up to 3 attempts each because TestConsensus is flaky on the unchanged tree as well
(BASELINE.json lists it under "flaky"). Loops until no queued entry is left, then sleeps and
looks again (stop with the file /tmp/rpcqueue.stop)."""
import glob, json, os, subprocess, time, shutil
VERIF = os.path.dirname(os.path.dirname(os.path.abspath(__file__)))
env = dict(os.environ); env["GOFLAGS"] = "-mod=mod"; env["GOPROXY"] = "off"; env.pop("GOTOOLCHAIN", None); env.pop("GOSUMDB", None)
while not os.path.exists("/tmp/rpcqueue.stop"):
    todo = []
    for mf in sorted(glob.glob(os.path.join(VERIF, "seeded", "*", "meta.json"))):
        m = json.load(open(mf))
        if m.get("rpc_package") == "queued":
            todo.append(mf)
    if not todo:
        time.sleep(60)
        continue
    mf = todo[0]
    d = os.path.dirname(mf)
    w = "/tmp/sv/rpc-" + os.path.basename(d)
    subprocess.run(["git", "-C", "/repo", "worktree", "prune"])
    shutil.rmtree(w, ignore_errors=True)
    subprocess.run(["git", "-C", "/repo", "worktree", "add", "-q", "--detach", w, "HEAD"], check=True)
    res = "apply-failed"
    if subprocess.run(["git", "apply", os.path.join(d, "patch.diff")], cwd=w).returncode == 0:
        attempts = []
        for k in range(3):
            p = subprocess.run(["go", "test", "-vet=off", "-count=1", "-timeout", "25m", "./rpc/..."], cwd=w, env=env, capture_output=True, text=True)
            attempts.append("pass" if p.returncode == 0 else "fail: " + " | ".join([l.strip() for l in p.stdout.splitlines() if "FAIL" in l or "Error:" in l or "expected" in l][:4]))
            if p.returncode == 0:
                break
        res = {"result": "pass" if attempts[-1] == "pass" else "fail", "attempts": attempts}
    subprocess.run(["git", "-C", "/repo", "worktree", "remove", "--force", w])
    m = json.load(open(mf))
    m["rpc_package"] = res
    json.dump(m, open(mf, "w"), indent=1)
    print(time.strftime("%H:%M"), os.path.basename(d), res, flush=True)
