#!/usr/bin/env python3
"""Summarise seeded/*/meta.json: id, confirmed, detection results."""
import glob, json, os, sys
V = os.path.dirname(os.path.dirname(os.path.abspath(__file__)))
only = sys.argv[1:]
for mf in sorted(glob.glob(os.path.join(V, "seeded", "*", "meta.json"))):
    sid = os.path.basename(os.path.dirname(mf))
    if only and not any(sid.startswith(o) for o in only):
        continue
    m = json.load(open(mf))
    det = {k: (v.get("result"), v.get("failed_tests", [])[:2]) if isinstance(v, dict) else v for k, v in m.get("detection", {}).items()}
    print(sid, "confirmed" if m.get("confirmed") else "NOT-CONFIRMED %s" % m.get("confirmed_by_orchestrator"), det)
