#!/usr/bin/env python3
"""Confirm one independently written seeded change and run the property's check against it.

  tools/seedrun.py <seed-dir> <ID> <variant> [--tier quick|thorough] [--keep]

<seed-dir> holds patch.diff, demonstration *_test.go files and meta.json as written by the
seeding sub-agent. Steps (all in scratch copies/worktrees of /repo, never in /repo):
  1. demo passes on the unchanged tree, fails with the change; the change builds and the
     existing suite (all packages except rpc, which binds fixed ports and is queued separately)
     passes with it  -> tools/seedverify.sh, result in <seed-dir>/verify.txt
  2. ./check <ID> --tier <tier> against the changed copy -> CAUGHT / MISSED
  3. with --keep: copy to /verif/seeded/<ID>-<variant>/ with an augmented meta.json
Demo placement is derived from each test file's package clause (common, crypto, storage, kernel,
p2p, base58, server, rpc, config) unless DEMO/DEMOCMD are given in the environment.
"""
import glob
import json
import os
import re
import shutil
import subprocess
import sys
import time

VERIF = os.path.dirname(os.path.dirname(os.path.abspath(__file__)))
PKGDIR = {"common": "common", "crypto": "crypto", "storage": "storage", "kernel": "kernel", "p2p": "p2p",
          "base58": "util/base58", "server": "rpc/internal/server", "rpc": "rpc", "config": "config",
          "internal": "kernel/internal", "clock": "kernel/internal/clock"}


def derive_demo(d):
    pairs, tests, pkgs = [], [], []
    for f in sorted(glob.glob(os.path.join(d, "*_test.go"))):
        src = open(f).read()
        m = re.search(r"^package\s+(\w+)", src, re.M)
        if not m:
            continue
        pkg = m.group(1)
        if pkg.endswith("_test"):
            pkg = pkg[:-5]
        if pkg not in PKGDIR:
            return None
        pairs.append("%s:%s/%s" % (os.path.basename(f), PKGDIR[pkg], os.path.basename(f)))
        tests += re.findall(r"^func (Test\w+)\(", src, re.M)
        if "./" + PKGDIR[pkg] + "/" not in pkgs:
            pkgs.append("./" + PKGDIR[pkg] + "/")
    if not pairs or not tests:
        return None
    return " ".join(pairs), "go test -vet=off -count=1 -timeout 20m -run '^(%s)$' %s" % ("|".join(tests), " ".join(pkgs))


def main():
    a = sys.argv[1:]
    if len(a) < 3:
        print(__doc__)
        return 2
    d, pid, var = os.path.abspath(a[0]), a[1], a[2]
    tier, keep = "quick", False
    i = 3
    while i < len(a):
        if a[i] == "--tier":
            tier = a[i + 1]; i += 2
        elif a[i] == "--keep":
            keep = True; i += 1
        else:
            return 2
    env = dict(os.environ)
    if "DEMOCMD" not in env:
        dd = derive_demo(d)
        if dd is None:
            print("cannot derive demo placement for %s; set DEMO and DEMOCMD" % d)
            return 2
        env["DEMO"], env["DEMOCMD"] = dd
    name = "%s%s" % (pid, var)
    out = {"id": name, "property": pid, "demo": env["DEMO"], "demo_cmd": env["DEMOCMD"]}
    if not os.path.exists(os.path.join(d, "verify.txt")) or "suite-exit" not in open(os.path.join(d, "verify.txt")).read():
        subprocess.run([os.path.join(VERIF, "tools", "seedverify.sh"), d, name], env=env, stdout=subprocess.DEVNULL, stderr=subprocess.DEVNULL)
    v = open(os.path.join(d, "verify.txt")).read()
    g = lambda k: (re.search(k + r"=(\d+)", v) or [None, "?"])[1]
    out["verify"] = {"demo_on_unchanged_tree_exit": g("demo-clean-exit"), "applies": "APPLY-OK" in v, "builds": "BUILD-OK" in v,
                     "existing_suite_without_rpc_exit": g("suite-exit"), "demo_with_change_exit": g("demo-changed-exit")}
    ok = out["verify"]["demo_on_unchanged_tree_exit"] == "0" and out["verify"]["applies"] and out["verify"]["builds"] and \
        out["verify"]["existing_suite_without_rpc_exit"] == "0" and out["verify"]["demo_with_change_exit"] not in ("0", "?")
    out["confirmed"] = ok
    t0 = time.time()
    p = subprocess.run([os.path.join(VERIF, "tools", "mut.sh"), pid, "--patch", os.path.join(d, "patch.diff"), tier], capture_output=True, text=True)
    txt = p.stdout + p.stderr
    res = "CAUGHT" if "(CAUGHT)" in txt else ("MISSED" if "rc=0" in txt else "INCONCLUSIVE")
    log = (re.search(r"log=(\S+)", txt) or [None, ""])[1]
    failed = []
    if log and os.path.exists(log):
        failed = sorted({l.split()[2].split("/")[0] for l in open(log, errors="replace") if l.lstrip().startswith("--- FAIL")})
    out.setdefault("detection", {})[tier] = {"result": res, "failed_tests": failed[:6], "wall_s": round(time.time() - t0)}
    print(json.dumps(out, indent=1))
    if keep:
        dst = os.path.join(VERIF, "seeded", "%s-%s" % (pid, var))
        os.makedirs(dst, exist_ok=True)
        meta = {}
        try:
            meta = json.load(open(os.path.join(d, "meta.json")))
        except Exception as e:
            meta = {"property": pid, "summary": "(meta.json of the author unreadable: %s)" % e}
        prev = {}
        if os.path.exists(os.path.join(dst, "meta.json")):
            prev = json.load(open(os.path.join(dst, "meta.json")))
        det = prev.get("detection", {})
        det.update(out["detection"])
        meta.update({"id": name, "property": pid, "demo_placement": out["demo"], "demo_cmd": out["demo_cmd"],
                     "confirmed_by_orchestrator": out["verify"], "confirmed": ok, "detection": det,
                     "rpc_package": prev.get("rpc_package", "not run: rpc TestConsensus is not part of the pinned suite (BASELINE.json lists it as flaky)")})
        json.dump(meta, open(os.path.join(dst, "meta.json"), "w"), indent=1)
        for f in glob.glob(os.path.join(d, "*")):
            if os.path.isfile(f) and os.path.basename(f) != "meta.json" and os.path.getsize(f) < 400000 and not f.endswith(".log"):
                shutil.copy(f, dst)
    return 0


if __name__ == "__main__":
    sys.exit(main())
