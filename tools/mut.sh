#!/bin/bash
# usage: tools/mut.sh <ID> <file-relative-to-repo> <sed-expression> [tier]
# Applies a one-line mutation to /repo, runs the check, always reverts.
set -u
ID=$1; F=$2; EXPR=$3; TIER=${4:-quick}
cd /repo || exit 3
if ! git diff --quiet; then echo "repo dirty"; exit 3; fi
sed -i -E "$EXPR" "$F"
if git diff --quiet; then echo "MUTATION DID NOT APPLY"; exit 3; fi
git diff | grep '^[+-]' | grep -v '^+++\|^---' | head -6
cd /verif && ./check "$ID" --tier "$TIER" > /tmp/mut-$ID.log 2>&1; rc=$?
git -C /repo checkout -- .
grep -E "VIOLATION|INCONCLUSIVE|\[$ID\] tier" /tmp/mut-$ID.log | head -5
echo "rc=$rc ($( [ $rc = 1 ] && echo CAUGHT || echo MISSED ))"
