#!/bin/bash
# usage: tools/mut.sh <ID> <file-relative-to-repo> <sed-expression> [tier]
#    or: tools/mut.sh <ID> --patch <patch.diff> [tier]
# Applies a mutation to a scratch copy of /repo (never to /repo itself), runs the
# check against the copy (VERIF_REPO) and removes the copy.
set -u
ID=$1
S=/tmp/vpmut-$ID-$$
rm -rf "$S"; mkdir -p "$S"
rsync -a --exclude .git /repo/ "$S"/
if [ "$2" = "--patch" ]; then
  (cd "$S" && patch -p1 -s < "$3") || { echo "PATCH DID NOT APPLY"; rm -rf "$S"; exit 3; }
  TIER=${4:-quick}
else
  F=$2; EXPR=$3; TIER=${4:-quick}
  sed -i -E "$EXPR" "$S/$F"
  if diff -q "$S/$F" "/repo/$F" >/dev/null; then echo "MUTATION DID NOT APPLY"; rm -rf "$S"; exit 3; fi
  diff "/repo/$F" "$S/$F" | head -6
fi
cd /verif && VERIF_REPO="$S" VERIF_RUN_TAG="mut$$" ./check "$ID" --tier "$TIER" > "$S.log" 2>&1; rc=$?
grep -E "VIOLATION|INCONCLUSIVE|\[$ID\] tier" "$S.log" | head -5
[ $rc = 2 ] && tail -30 "$S.log"
rm -rf "$S" /verif/.buildmut$$ /verif/.runmut$$
echo "rc=$rc ($( [ $rc = 1 ] && echo CAUGHT || echo MISSED )) log=$S.log"
