module verifkit

go 1.23
