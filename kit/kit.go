// Package verifkit is the evidence collector and run configuration shared by
// every harness. It depends on the standard library only so that it can be
// imported from any package of the repository without cycles.
package verifkit

import (
	"encoding/json"
	"flag"
	"fmt"
	"hash/fnv"
	"os"
	"regexp"
	"sort"
	"strconv"
	"strings"
	"sync"
	"testing"
	"time"
)

const maxFingerprints = 200000
const maxSamples = 6

// Tier returns "quick" or "thorough".
func Tier() string {
	if os.Getenv("VERIF_TIER") == "thorough" {
		return "thorough"
	}
	return "quick"
}

func Thorough() bool { return Tier() == "thorough" }

// Shard returns (index, count) of this process among the processes the driver
// started for the same test.
func Shard() (int, int) {
	i, _ := strconv.Atoi(os.Getenv("VERIF_SHARD"))
	n, _ := strconv.Atoi(os.Getenv("VERIF_SHARDS"))
	if n <= 0 {
		n = 1
	}
	return i, n
}

// Seed is the seed the driver derived from VERIF_SEED for this shard.
func Seed() uint64 {
	s, _ := strconv.ParseUint(os.Getenv("VERIF_RAPID_SEED"), 10, 64)
	if s == 0 {
		s = 1
	}
	return s
}

// N picks a case count by tier and divides the thorough count across shards.
func N(quick, thorough int) int {
	if !Thorough() {
		return quick
	}
	_, n := Shard()
	v := (thorough + n - 1) / n
	if v < 1 {
		v = 1
	}
	return v
}

// SetChecks sets the number of cases the following rapid.Check calls generate.
func SetChecks(n int) {
	if f := flag.Lookup("rapid.checks"); f != nil {
		_ = f.Value.Set(strconv.Itoa(n))
	}
}

// SetSteps sets rapid's average number of Repeat actions.
func SetSteps(n int) {
	if f := flag.Lookup("rapid.steps"); f != nil {
		_ = f.Value.Set(strconv.Itoa(n))
	}
}

// Replaying reports whether this process replays a saved rapid fail file, in
// which case deterministic sweeps and witnesses are skipped.
func Replaying() bool {
	f := flag.Lookup("rapid.failfile")
	return f != nil && f.Value.String() != ""
}

type finding struct {
	Property string `json:"property"`
	Id       string `json:"id"`
	Status   string `json:"status"`
	What     string `json:"what"`
}

var (
	knownOnce sync.Once
	knownMap  map[string]finding
)

func loadKnown() {
	knownMap = map[string]finding{}
	p := os.Getenv("VERIF_KNOWN")
	if p == "" {
		return
	}
	b, err := os.ReadFile(p)
	if err != nil {
		return
	}
	var doc struct {
		Findings []finding `json:"findings"`
	}
	if json.Unmarshal(b, &doc) != nil {
		return
	}
	for _, f := range doc.Findings {
		knownMap[f.Id] = f
	}
}

// Known reports whether finding id is listed as an open (not fixed) known
// finding in the committed known-findings file.
func Known(id string) bool {
	knownOnce.Do(loadKnown)
	f, ok := knownMap[id]
	return ok && f.Status == "open"
}

// ReportKnown prints the KNOWN-FINDING line for a listed finding whose witness
// still fails, or fails the test when the finding is not listed.
func ReportKnown(t testing.TB, property, id, what string) {
	if Known(id) {
		fmt.Printf("KNOWN-FINDING: property=%s %s: %s\n", property, id, what)
		return
	}
	t.Fatalf("unlisted finding %s: %s", id, what)
}

// Inconclusive marks the run as not decided (generator regression, resource
// trouble). The driver maps it to exit status 2, never to a violation.
func Inconclusive(t testing.TB, format string, args ...any) {
	fmt.Printf("VERIF-INCONCLUSIVE: %s %s\n", strings.SplitN(t.Name(), "/", 2)[0], fmt.Sprintf(format, args...))
	t.Errorf("inconclusive: "+format, args...)
}

// Collector accumulates what one test function actually explored.
type Collector struct {
	mu       sync.Mutex
	t        testing.TB
	prop     string
	name     string
	rule     string
	start    time.Time
	evals    int64
	fps      map[uint64]struct{}
	overflow int64
	classes  map[string]int64
	required []string
	samples  []any
	seen     int64
	extra    map[string]any
	exhaust  bool
	assume   []string
}

var nameRe = regexp.MustCompile(`[^A-Za-z0-9_.-]+`)

// New creates a collector for test t of property prop and registers the flush.
func New(t testing.TB, prop, rule string) *Collector {
	c := &Collector{t: t, prop: prop, name: nameRe.ReplaceAllString(t.Name(), "_"), rule: rule,
		start: time.Now(), fps: map[uint64]struct{}{}, classes: map[string]int64{}, extra: map[string]any{}}
	t.Cleanup(c.flush)
	return c
}

func hash64(s string) uint64 {
	h := fnv.New64a()
	_, _ = h.Write([]byte(s))
	return h.Sum64()
}

// Case records one evaluation that reached the oracle. fp identifies the case;
// nontrivial says whether it is non-trivial by the stated rule.
func (c *Collector) Case(fp string, nontrivial bool, classes ...string) {
	c.mu.Lock()
	defer c.mu.Unlock()
	c.evals++
	if nontrivial {
		h := hash64(c.name + "|" + fp)
		if _, ok := c.fps[h]; !ok {
			if len(c.fps) < maxFingerprints {
				c.fps[h] = struct{}{}
			} else {
				c.overflow++
			}
		}
	}
	for _, k := range classes {
		c.classes[k]++
	}
}

// Class increments class counters without counting an evaluation.
func (c *Collector) Class(classes ...string) {
	c.mu.Lock()
	defer c.mu.Unlock()
	for _, k := range classes {
		c.classes[k]++
	}
}

// ClassN adds n to a class counter.
func (c *Collector) ClassN(class string, n int) {
	c.mu.Lock()
	defer c.mu.Unlock()
	c.classes[class] += int64(n)
}

// Require lists classes that must have been produced at least once; otherwise
// the run is inconclusive (the generator no longer reaches what matters).
func (c *Collector) Require(classes ...string) {
	c.mu.Lock()
	defer c.mu.Unlock()
	c.required = append(c.required, classes...)
}

// Sample keeps a few actual cases (first ones, then a deterministic thinning).
func (c *Collector) Sample(v any) {
	c.mu.Lock()
	defer c.mu.Unlock()
	c.seen++
	if len(c.samples) < maxSamples {
		c.samples = append(c.samples, v)
		return
	}
	// keep the first half, rotate the second half at exponentially rarer points
	if c.seen&(c.seen-1) == 0 {
		i := maxSamples/2 + int(hash64(strconv.FormatInt(c.seen, 10))%uint64(maxSamples-maxSamples/2))
		c.samples[i] = v
	}
}

func (c *Collector) Set(key string, v any) {
	c.mu.Lock()
	defer c.mu.Unlock()
	c.extra[key] = v
}

func (c *Collector) Exhaustive(note string) {
	c.mu.Lock()
	defer c.mu.Unlock()
	c.exhaust = true
	c.extra["exhaustive_subspace"] = note
}

func (c *Collector) Assume(s ...string) {
	c.mu.Lock()
	defer c.mu.Unlock()
	c.assume = append(c.assume, s...)
}

func (c *Collector) Count(class string) int64 {
	c.mu.Lock()
	defer c.mu.Unlock()
	return c.classes[class]
}

func (c *Collector) flush() {
	c.mu.Lock()
	defer c.mu.Unlock()
	if !c.t.Failed() && !Replaying() {
		var missing []string
		for _, k := range c.required {
			if c.classes[k] == 0 {
				missing = append(missing, k)
			}
		}
		if _, n := Shard(); len(missing) > 0 && n > 1 {
			// sharded run: the driver decides on the union of all shards
			c.extra["required_missing_in_shard"] = strings.Join(missing, ", ")
		} else if len(missing) > 0 {
			fmt.Printf("VERIF-INCONCLUSIVE: %s produced no case of class %s\n", strings.SplitN(c.t.Name(), "/", 2)[0], strings.Join(missing, ", "))
			c.t.Errorf("inconclusive: required classes never generated: %v", missing)
		}
	}
	out := os.Getenv("VERIF_EVIDENCE_OUT")
	if out == "" {
		return
	}
	fps := make([]string, 0, len(c.fps))
	for h := range c.fps {
		fps = append(fps, strconv.FormatUint(h, 16))
	}
	sort.Strings(fps)
	shard, _ := Shard()
	part := map[string]any{
		"property": c.prop, "test": c.name, "rule": c.rule, "evaluations": c.evals,
		"fingerprints": fps, "fingerprint_overflow": c.overflow, "classes": c.classes,
		"samples": c.samples, "extra": c.extra, "exhaustive": c.exhaust, "assumptions": c.assume,
		"wall_s": time.Since(c.start).Seconds(), "failed": c.t.Failed(), "shard": shard, "required": c.required,
	}
	b, err := json.Marshal(part)
	if err != nil {
		// samples must be JSON-encodable; fall back to their %v form
		strs := make([]any, len(c.samples))
		for i, s := range c.samples {
			strs[i] = fmt.Sprintf("%+v", s)
		}
		part["samples"] = strs
		b, _ = json.Marshal(part)
	}
	_ = os.WriteFile(fmt.Sprintf("%s.%s.%d.part.json", out, c.name, shard), b, 0o644)
}
